#!/venv/bin/python
"""Regenerates MANIFEST.json (kept as a script so the N/A reasons and commands live in one place)."""
import json

NA = {
 "C01": "pure arithmetic of one kernel and one model (average_port_pressure / assign_optimal_throughput / get_throughput_sum); no schedule, clock, fault or cross-call state for a simulator to control — 'optimised twice' is a fixed call sequence, not a history",
 "C02": "same pure code as C01; deciding it needs an LP/Hall-bound oracle over port models (bounded enumeration / solver), not simulation",
 "C03": "create_DG / find_depending / is_read / is_written are a pure function of the parsed kernel and the ISA file; nothing to schedule or fault",
 "C04": "a graph algorithm on C03's result; pure function of its input",
 "C05": "for kernels below 50 lines a pure function; for longer kernels the only schedule-dependent ingredient is exactly C16 (parallel search = sequential search), which is claimed",
 "C06": "is_memload and register-change tracking are pure functions of the kernel; no time, I/O or interleaving",
 "C07": "get_instruction / _match_operands is a pure predicate over (model entry, operands)",
 "C08": "pure per instruction given the model; the in-kernel aliasing noted in DESIGN §6 is an input-order effect inside one call, not something a schedule or fault can influence",
 "C09": "pyparsing grammar over a string; the singleton parser holds only the grammar; pure function of the input text",
 "C10": "pyparsing grammar over a string; pure function of the input text",
 "C11": "marker search and --lines expansion over a parsed list; the file is read with a single read(); pure",
 "C12": "a finite table of register overlaps; exhaustive enumeration decides it, nothing to simulate",
 "C13": "text and machine-readable output are rendered from one in-memory analysis; the only clock is the timestamp line, which the property excludes",
 "C14": "metamorphic relation between two pure calls (rotated kernel); no schedule or fault involved",
 "C15": "static validation of shipped data files plus --db-check counting; exhaustive enumeration of the entries, no concurrency/time/I/O faults",
 "C20": "readlines() of the whole benchmark file followed by pure parsing and rounding; a truncated or corrupt file is a different input, not a fault at an instant of the importer's execution",
}

def chk(pid, text, note, technique, ref):
    return {
        "property_id": pid,
        "quick_cmd": "timeout 1700 /venv/bin/python sim/run.py check %s --tier quick" % pid,
        "thorough_cmd": "timeout 14000 /venv/bin/python sim/run.py check %s --tier thorough" % pid,
        "evidence_file": "/verif/evidence/%s.json" % pid,
        "replay_cmd_template": "/venv/bin/python /verif/sim/run.py replay {path}",
        "engine": "osaca-detsim",
        "level_claimed": {"category": "exploration", "text": text, "design_ref": ref},
        "level_note": note,
        "technique": technique,
    }

CHECKS = {
 "C16": chk("C16",
   "Seeded search over schedules of the real multi-process LCD search (real KernelDG, _extend_path, networkx, Frontend) under a deterministic scheduler that owns process start, per-worker speed, manager delivery order and completion order, for worker counts {1,2,3,5,16,klen+3} around and above the 50-line threshold; oracle = ordered equality with the sequential search and byte-identical report; 15% of the runs go through the real entry point osaca.osaca.run; plus fresh-interpreter CLI repeats under different PYTHONHASHSEEDs, the same simulated schedule under another hash seed, real-multiprocessing cross-checks and a stub-fidelity test of the stand-ins against the real multiprocessing module. Sampling, not proof. Sensitivity: 7 own mutants and 7 seeded changes written by sub-agents are caught by the quick tier.",
   "Trusts the stand-ins for multiprocessing.Process/Manager (fork = deep copy of arguments, one FIFO per manager connection), dyadic model latencies, and that the sequential branch is the specification.",
   "deterministic simulation: seeded scheduler over simulated processes + reference-model comparison", "DESIGN.md §4.1"),
 "C17": chk("C17",
   "Seeded search over histories of a simulated machine (package data dir, user data dir, home cache, permission table) on which 1-4 simulated OSACA processes, each with a private copy of the package, run the real osaca.osaca.run with every file-system call intercepted: crashes / ENOSPC / EIO / EACCES at chosen events of the cache write, racing cold starts, machine crash cutting un-fsynced files, planted truncated / foreign-version / valid caches, read-only data dir, wipes, user-dir shadowing, model edits, long-lived processes; every report is compared with a cache-less reference; sixteen template histories spelling out the cache histories named by the quantifier; model edits by an external actor DURING a run and edits that keep the size and time stamps of the file; atexit handlers of simulated processes; plus a systematic sweep of the crash point over every mutation event of the cache write (single and racing writer, three chunkings). Sampling plus a small exhaustive sweep, not proof. Found and led to the repair of two defects (20d2aa6, d2d0840). Sensitivity: 11 own mutants and 7 seeded changes are caught by the quick tier.",
   "Trusts the SimFS layer over real files (pessimistic crash model: un-fsynced data may be cut, renames persist), process isolation by private package copies, trimmed model/ISA files in the 'tiny' batches.",
   "deterministic simulation: simulated file system + crash/IO-error fault injection + racing processes, reference-model comparison per operation", "DESIGN.md §4.2"),
 "C18": chk("C18",
   "Generated histories (2-12 analyses, adversarially biased: repeats, same kernel/other model, same model/other kernel, fixed<->optimal, ISA switches, post-exception, memory-composed / dependency-breaking / pre-post-indexed / unknown instructions) issued by one simulated long-lived process with a fresh package copy, compared element-wise with fresh real subprocess runs; a fresh in-process copy is cross-checked against the subprocess reference. Sampling, not proof. Sensitivity: 4 own mutants and 7 seeded changes are caught by the quick tier.",
   "Trusts the fresh-subprocess reference (same hash seed, same warm scratch caches) and the text report as the observable.",
   "deterministic simulation (single long-lived process): generated call histories vs fresh-process reference model", "DESIGN.md §4.3"),
 "C19": chk("C19",
   "Seeded search over schedules and kill points of the real poll/kill loop under a simulated clock: workers are pre-empted inside the path enumeration (sys.monitoring line events), the real kill loop delivers simulated SIGKILLs before/between/after deliveries; oracles: deadline invariant (timeout + 1.0 simulated s), warning iff cut short, every reported LCD validated edge-by-edge against the real two-iteration graph and against the untimed reference, throughput/CP cells unchanged, no worker alive at return, completeness when not cut; cost model with per-line search cost, manager round trips, per-element transfer cost and fork cost, so deadlines strike in the search, inside multi-part deliveries, during the parent's copy and during the launch; 15% of the runs go through osaca.osaca.run; sampled runs on the real multiprocessing module. Sampling, not proof. Found one repaired defect (19315c2) and one known finding (sequential branch ignores the timeout). Sensitivity: 8 own mutants and 7 seeded changes are caught by the quick tier.",
   "Trusts the cost model (simulated time passes only in sleep and traced search lines), the stand-ins for multiprocessing/time/os.kill, and kill delivery only between Python lines or at simulated OS calls.",
   "deterministic simulation: simulated clock + SIGKILL fault injection + invariants and history oracles", "DESIGN.md §4.4"),
}

def main():
    import os, sys
    claimed = [c for c in ("C16", "C17", "C18", "C19") if os.path.exists("/verif/sim/%s.py" % c.lower()) and c in CHECKS]
    na = [{"property_id": k, "reason": v} for k, v in sorted(NA.items())]
    for c in ("C16", "C17", "C18", "C19"):
        if c not in claimed:
            na.append({"property_id": c, "reason": "simulation applies (DESIGN.md §4) but the check is not built yet in this revision"})
    m = {
        "version": 1,
        "setup_cmd": "sh /verif/setup.sh",
        "hooks": {
            "guard": "OSACA_VERIF",
            "enable": "no hook is needed: every seam (multiprocessing.Process/Manager/cpu_count, time, os.kill/getpid, io.open/os.* file calls, osaca.utils.DATA_DIRS/CACHE_DIR) is a module attribute the harness patches from outside; the guard name is reserved and unused",
            "baseline_off_cmd": "cd /repo && /venv/bin/python -m pytest -ra -q -p no:cacheprovider --timeout=900 --continue-on-collection-errors",
            "source_commits": [],
            "add_only": True,
        },
        "engines": [{"name": "osaca-detsim", "path": "/verif/sim", "serves_properties": claimed,
                     "kind_free_text": "hand-written deterministic simulator in Python: baton-passing threads as simulated processes, seeded choice sequence, discrete-event clock, sys.monitoring pre-emption, simulated SIGKILL, simulated file system layer, reference models, shrinker, replay"}],
        "checks": [CHECKS[c] for c in claimed],
        "not_applicable": sorted(na, key=lambda x: x["property_id"]),
        "notes": "Technique studied: deterministic simulation with fault injection. Genuine defects repaired in /repo by unguarded 'fix:' commits 19315c2 (C19), 20d2aa6 (C17), d2d0840 (C17); one known finding (C19, sequential branch ignores the LCD timeout) in /verif/known_findings.json; no hook commits. See DESIGN.md §8 and §9.",
    }
    json.dump(m, open("/verif/MANIFEST.json", "w"), indent=1)
    print("claimed", claimed)

if __name__ == "__main__":
    main()
