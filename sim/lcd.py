"""Shared machinery of C16 and C19: one analysis of one kernel inside the simulator.

The parent task runs the real `KernelDG(...)` constructor (graph construction, partitioning,
poll loop, kill loop, list copy, post-processing) and the real `Frontend`; worker tasks run
the real `_extend_path` with real networkx.  Only multiprocessing / time / os.kill are
stand-ins (procs.py).
"""
import copy
import io
import os
import sys

from . import core, procs
from .core import Sim, Chooser, InvariantViolation, current_task, HarnessError

_state = {"loaded": False}


def load_osaca(root):
    """Import the working-tree osaca with stand-ins installed and data dirs at `root`."""
    from . import env
    procs.install()
    env.use_repo()
    import osaca.utils as u
    env.point_osaca_at(root, u)
    import osaca.osaca as o  # noqa
    import osaca.semantics.kernel_dg as kd
    for name, m in list(sys.modules.items()):
        if name == "osaca" or name.startswith("osaca."):
            procs.rebind_module(m)
    _install_probes(kd)
    core.Preempt.install()
    import networkx.algorithms.simple_paths as sp
    core.Preempt.add_module_functions(sp)
    _state["loaded"] = True
    return o, kd


def _install_probes(kd):
    """Wrap two methods of KernelDG on the class so a run can see (a) the two-iteration graph
    the real code built and (b) when the parent is inside the search.  Pure observation."""
    K = kd.KernelDG
    if getattr(K, "_verif_wrapped", False):
        return
    orig_create, orig_check = K.create_DG, K.check_for_loopcarried_dep

    def create_DG(self, kernel, *a, **kw):
        dg = orig_create(self, kernel, *a, **kw)
        t = current_task()
        if t is not None:
            t.sim.captured.setdefault("dgs", []).append(dg)
        return dg

    def check_for_loopcarried_dep(self, kernel, *a, **kw):
        t = current_task()
        if t is not None:
            t.sim.captured["kg"] = self
            t.sim.captured["search_enter"] = t.sim.now
            t.sim.captured["in_search"] = True
            t.sim.ev("search-enter")
        try:
            return orig_check(self, kernel, *a, **kw)
        finally:
            if t is not None:
                t.sim.captured["search_exit"] = t.sim.now
                t.sim.captured["in_search"] = False
                if not t.sim.aborting and not t.killed:
                    t.sim.ev("search-exit")
                    w = getattr(t.sim, "world", None)
                    if w is not None:
                        t.sim.captured["procs_at_exit"] = [
                            (p.pid, p.task is None or p.task.done or p.task.killed, p.joined)
                            for p in w.procs if p.started]
                        t.sim.captured["mgr_shut"] = [m.shut for m in w.managers]

    create_DG.__wrapped__ = orig_create
    check_for_loopcarried_dep.__wrapped__ = orig_check
    K.create_DG = create_DG
    K.check_for_loopcarried_dep = check_for_loopcarried_dep
    K._verif_wrapped = True


class Case:
    """A kernel prepared once per OS process: parsed, semantics applied."""

    def __init__(self, name, arch, text, flag_deps=False, fixed=False, lines=None):
        self.name, self.arch, self.text = name, arch.lower(), text
        self.flag_deps, self.fixed, self.lines = flag_deps, fixed, lines
        self.kernel = None
        self.path = None  # kernel file in the scratch directory (for runs through the CLI entry point)

    def key(self):
        return (self.name, self.arch, self.flag_deps, self.fixed)

    def prepare(self):
        if self.kernel is not None:
            return self
        import osaca.osaca as o
        from osaca.semantics import MachineModel, ArchSemantics, reduce_to_section
        from osaca.frontend import Frontend
        self.isa = MachineModel.get_isa_for_arch(self.arch)
        self.parser = o.get_asm_parser(self.arch)
        parsed = self.parser.parse_file(self.text)
        if self.lines:
            rng = o.get_line_range(self.lines)
            kernel = [l for l in parsed if l.line_number in rng]
        else:
            kernel = reduce_to_section(parsed, self.isa)
        self.mm = MachineModel(arch=self.arch)
        self.sem = ArchSemantics(self.mm)
        self.sem.add_semantics(kernel)
        if not self.fixed:
            self.sem.assign_optimal_throughput(kernel)
            self.sem.assign_optimal_throughput(kernel)
        self.kernel = kernel
        self.klen = len(kernel)
        self.frontend = Frontend(self.name, arch=self.arch)
        return self


def canon_lcd(lcd):
    """Ordered canonical form of get_loopcarried_dependencies()."""
    out = []
    for k, v in lcd.items():
        out.append((k, v["latency"], tuple((n.line_number, l) for n, l in v["dependencies"]),
                    v["root"].line_number))
    return out


def strip_ts(text):
    return "\n".join(l for l in text.split("\n") if not l.startswith("Timestamp:"))


def split_report(text):
    """Return (report without LCD-dependent cells, lcd-part) so oracle 4 of C19 can compare the
    cells a cut-short search must not touch.  The combined view's last column is the LCD column."""
    keep = []
    for l in strip_ts(text).split("\n"):
        keep.append(l)
    return keep


class RunResult:
    pass


def run_analysis(case, workers, timeout, chooser, threshold, max_steps=200000, deadline_slack=None,
                 parent_cost=None, speeds=None, start_delays=None, want_report=True, extra_inv=None, rtt=None,
                 via_cli=False, item_cost=None, fork_cost=None, syscall_cost=None):
    """One simulated analysis.  Returns RunResult with everything the oracles need."""
    import osaca.semantics.kernel_dg as kd
    case.prepare()
    sim = Sim(chooser, max_steps=max_steps)
    sim.captured = {}
    if rtt is None:
        rtt = procs.RTTS[chooser.choose(len(procs.RTTS), "rtt")]
    if item_cost is None:
        item_cost = procs.ITEM_COSTS[chooser.choose(len(procs.ITEM_COSTS), "itemcost")]
    if fork_cost is None:
        fork_cost = procs.FORK_COSTS[chooser.choose(len(procs.FORK_COSTS), "forkcost")]
    if syscall_cost is None:
        syscall_cost = procs.SYSCALL_COSTS[chooser.choose(len(procs.SYSCALL_COSTS), "syscallcost")]
    w = procs.World(sim, ncpu=workers, shared=[case.parser, case.mm, case.sem],
                    speeds=speeds or procs.SPEEDS, start_delays=start_delays or procs.START_DELAYS, rtt=rtt,
                    item_cost=item_cost, fork_cost=fork_cost, syscall_cost=syscall_cost,
                    term_ignored=bool(chooser.choose(4, "sigterm-disposition") == 3))
    if parent_cost is None:
        parent_cost = (speeds or procs.SPEEDS)[chooser.choose(len(speeds or procs.SPEEDS), "pspeed")]
    res = RunResult()
    res.sim, res.world = sim, w
    saved_thr = kd.KernelDG.INSTRUCTION_THRESHOLD
    if threshold is not None:
        kd.KernelDG.INSTRUCTION_THRESHOLD = threshold
    if deadline_slack is not None and timeout is not None and timeout >= 0:
        bound = timeout + deadline_slack

        def inv(s):
            c = s.captured
            if c.get("in_search") and s.now - c["search_enter"] - c.get("launch_overhead", 0.0) > bound:
                # the deadline bounds the *search*: workers still running, or (sequential branch, no
                # worker was ever created) the parent enumerating.  Copying results out of the manager
                # and post-processing after every worker is dead is overhead the property does not bound.
                alive = [p.pid for p in w.procs if p.started and not p.task.done and not p.task.killed]
                own = s.now - c["search_enter"] - c.get("launch_overhead", 0.0) - c.get("parent_rtt", 0.0)
                if alive or not w.procs or own > bound:
                    raise InvariantViolation(
                        "deadline_overrun",
                        "search still running %.3f s after it began (timeout %s, bound %.3f; %s)"
                        % (s.now - c["search_enter"], timeout, bound,
                           "workers alive: %r" % alive if alive else
                           "sequential enumeration in the parent" if not w.procs else
                           "parent spent %.3f s outside manager round trips" % own))

        sim.invariants.append(inv)
    if extra_inv:
        sim.invariants.extend(extra_inv)

    def analysis():
        kernel = copy.deepcopy(case.kernel)
        kg = kd.KernelDG(kernel, case.parser, case.mm, case.sem, timeout, case.flag_deps)
        out = {"kg": kg, "kernel": kernel, "timed_out": kg.timed_out}
        out["lcd"] = canon_lcd(kg.get_loopcarried_dependencies())
        if want_report:
            fe = case.frontend
            out["text"] = strip_ts(fe.full_analysis(kernel, kg, lcd_warning=kg.timed_out)).rstrip("\n")
            d = fe.full_analysis_dict(kernel, kg, lcd_warning=kg.timed_out)
            out["warnings"] = list(d["Warnings"])
            out["summary"] = d["Summary"]
            out["cp"] = [(x.line_number, x.latency_cp) for x in kg.get_critical_path()]
        return out

    def analysis_cli():
        """The same analysis through the real entry point osaca.osaca.run -> inspect (argument wiring,
        lcd_warning=kernel_graph.timed_out, --yaml-out), on the kernel file in the scratch directory."""
        import io
        import osaca.osaca as o
        p = o.create_parser()
        argv = ["--arch", case.arch] + (["-f"] if case.flag_deps else []) + (["--fixed"] if case.fixed else []) + \
            (["--lines", case.lines] if case.lines else []) + [case.path]
        args = p.parse_args(argv)
        o.check_arguments(args, p)
        args.lcd_timeout = timeout  # argparse's type=int would reject the non-integer timeouts the API accepts
        args.yaml_out = io.StringIO()
        buf = io.StringIO()
        try:
            o.run(args, output_file=buf)
        finally:
            args.file.close()
        kg = sim.captured.get("kg")
        kernel = kg.kernel
        out = {"kg": kg, "kernel": kernel, "timed_out": kg.timed_out}
        out["lcd"] = canon_lcd(kg.get_loopcarried_dependencies())
        out["text"] = strip_ts(buf.getvalue()).rstrip("\n")
        y = args.yaml_out.getvalue()
        out["warnings"] = ["LCDWarning"] if "LCDWarning" in y else []
        d = case.frontend.full_analysis_dict(kernel, kg, lcd_warning=kg.timed_out)
        out["summary"] = d["Summary"]
        out["cp"] = [(x.line_number, x.latency_cp) for x in kg.get_critical_path()]
        return out

    try:
        res.out = sim.run(analysis_cli if via_cli else analysis, trace=True, line_cost=parent_cost)
    finally:
        kd.KernelDG.INSTRUCTION_THRESHOLD = saved_thr
    res.lines = sum(t.lines for t in sim.tasks)
    res.parent = sim.main_task
    res.parent_exc = sim.main_task.exc
    res.aborted = sim.abort_reason
    res.violation = sim.violation
    res.deadlock = sim.deadlock
    res.harness = next((t.exc for t in sim.tasks if t.exit_status == "harness"), None)
    res.captured = sim.captured
    return res


def validate_chain(dg, offset, chain):
    """Is `chain` = [(line, edge_latency)...] (sorted by line) a cycle of the two-iteration
    graph: some member r such that r -> members>r (ascending) -> members<r (+offset) -> r+offset
    with exactly the reported edge latencies?  Returns (ok, latency_sum or reason)."""
    lines = [c[0] for c in chain]
    lat = dict(chain)
    if len(set(lines)) != len(lines):
        return False, "duplicate member"
    if any(x > offset for x in lines):
        return False, "member line %r is not a line of the kernel (second-iteration node id?)" % (max(lines),)
    for r in lines:
        seq = [r] + [x for x in lines if x > r] + [x + offset for x in lines if x < r] + [r + offset]
        ok = True
        total = 0.0
        for s, d in zip(seq, seq[1:]):
            if not dg.has_edge(s, d):
                ok = False
                break
            el = dg.edges[s, d]["latency"]
            src = s - offset if s >= offset else s
            if src not in lat or el != lat[src]:
                ok = False
                break
            total += el
        if ok:
            return True, total
    return False, "no rotation of the members is a path root -> root+offset with these latencies"
