"""Stand-ins for multiprocessing.Process / Manager / cpu_count, time and os.kill / os.getpid.

They are installed once per OS process on the *defining* modules (multiprocessing, time, os)
and dispatch on the calling thread: a thread that is not a simulated task falls straight
through to the real function, so the harness, pytest and the import system are unaffected.
After `osaca` has been imported, `rebind_module()` additionally re-points names that a
module bound with `from multiprocessing import ...`.
"""
import copy
import os
import pickle
import sys
import time as _time_mod
import multiprocessing as _mp
import multiprocessing.process as _mp_process
import signal as _signal
import atexit as _atexit

from . import core
from .core import current_task, HarnessError, UnsupportedSeam, SimKilled

_real = {
    "Process": _mp.Process,
    "Manager": _mp.Manager,
    "cpu_count": _mp.cpu_count,
    "os_cpu_count": os.cpu_count,
    "time": _time_mod.time,
    "sleep": _time_mod.sleep,
    "monotonic": _time_mod.monotonic,
    "perf_counter": _time_mod.perf_counter,
    "kill": os.kill,
    "getpid": os.getpid,
    "bp_start": _mp_process.BaseProcess.start,
    "atexit_register": _atexit.register,
    "atexit_unregister": _atexit.unregister,
    "fork": os.fork,
}

EPOCH = 1.7e9
# read-only in a worker; sharing them models fork's copy-on-write without copying megabytes
_SHARE_BY_CLASS = ("MachineModel", "ArchSemantics", "ISASemantics", "ParserX86ATT", "ParserAArch64")
SPEEDS = (1e-5, 3e-5, 1e-4, 3e-4, 1e-3)  # simulated seconds per traced line
START_DELAYS = (0.0, 0.0, 0.003, 0.05, 0.19, 0.35)
RTTS = (0.0, 0.0, 1e-4, 1e-3, 1e-2, 1e-1)
ITEM_COSTS = (0.0, 0.0, 1e-6, 1e-5)
FORK_COSTS = (0.0, 0.0, 1e-3, 1e-2, 5e-2)
SYSCALL_COSTS = (0.0, 0.0, 1e-5, 1e-4, 1e-3)  # simulated seconds per is_alive() / kill() of the parent  # simulated seconds the parent spends in one Process.start()  # simulated seconds per element of a delivered list (pickling, transfer)  # simulated seconds per manager round trip


class World:
    """Per-run process table and configuration shared by the stand-ins."""

    def __init__(self, sim, ncpu=4, shared=(), speeds=SPEEDS, start_delays=START_DELAYS, rtt=0.0, item_cost=0.0, fork_cost=0.0, syscall_cost=0.0,
                 term_ignored=False):
        self.sim = sim
        self.ncpu = ncpu
        self.shared = list(shared)  # objects memo-shared (read-only) with workers
        self.speeds = speeds
        self.start_delays = start_delays
        self.rtt = rtt
        self.item_cost = item_cost
        self.fork_cost = fork_cost
        self.term_ignored = term_ignored
        # with very many workers a millisecond per call would alone eat the slack of the deadline bound
        self.syscall_cost = syscall_cost if ncpu <= 40 else min(syscall_cost, 1e-4)
        self.procs = []
        self.managers = []
        self.next_pid = 1001
        self.parent_pid = 1000
        sim.world = self

    def by_pid(self, pid):
        for p in self.procs:
            if p.pid == pid:
                return p
        return None


def _world():
    t = current_task()
    if t is None:
        return None
    return getattr(t.sim, "world", None)


# ------------------------------------------------------------------ Process
class SimProcess:
    _sim_standin = True

    def __init__(self, group=None, target=None, name=None, args=(), kwargs=None, daemon=None):
        w = _world()
        self._w = w
        self._target, self._args, self._kwargs = target, tuple(args), dict(kwargs or {})
        self.pid = None
        self.task = None
        self.name = name or "SimProcess-%d" % (len(w.procs) + 1)
        self.daemon = daemon
        self.joined = False
        self.started = False
        self.exitcode = None
        self.start_index = None
        w.procs.append(self)

    def start(self):
        w, sim = self._w, self._w.sim
        sim.check_alive()
        if self.started:
            raise AssertionError("cannot start a process twice")
        self.started = True
        self.pid = w.next_pid
        w.next_pid += 1
        self.start_index = sum(1 for p in w.procs if p.started) - 1
        # fork semantics: the child sees a private copy of everything reachable from target/args
        memo = {id(x): x for x in w.shared}
        owner = getattr(self._target, "__self__", None)
        for x in list(getattr(owner, "__dict__", {}).values()) + list(self._args):
            if type(x).__name__ in _SHARE_BY_CLASS:
                memo[id(x)] = x
        for m in w.managers:
            for px in m.proxies:
                memo[id(px)] = px
        target, args, kwargs = copy.deepcopy((self._target, self._args, self._kwargs), memo)
        core.Preempt.add_function(self._target)
        speed = w.speeds[sim.choose(len(w.speeds), "speed")]
        delay = w.start_delays[sim.choose(len(w.start_delays), "startdelay")]
        proc = self

        def fn():
            if target is not None:
                target(*args, **kwargs)
            run_exit_handlers()

        self.task = sim.spawn("w%d" % self.pid, fn, trace=True, line_cost=speed, kind="proc",
                              delay=delay)
        self.task.proc = proc
        self.task.attrs["pid"] = self.pid
        self.task.attrs["delay"] = delay
        sim.ev("start", self.pid, speed, delay)
        sim.yield_(w.fork_cost, "proc-start")
        if w.fork_cost:
            cap = getattr(sim, "captured", None)
            if cap is not None:
                # start-up overhead of the parent: the code under test may or may not count it against
                # the timeout; the property bounds the search, so the oracle allows for it
                cap["launch_overhead"] = cap.get("launch_overhead", 0.0) + w.fork_cost

    def run(self):
        if self._target:
            self._target(*self._args, **self._kwargs)

    def _update_exit(self):
        t = self.task
        if t is not None and t.done and self.exitcode is None:
            if t.exit_status == "killed":
                self.exitcode = -int(_signal.SIGKILL)
            elif t.exit_status == "ok":
                self.exitcode = 0
            else:
                self.exitcode = 1

    def is_alive(self):
        sim = self._w.sim
        sim.check_alive()
        if not self.started:
            return False
        sim.yield_(self._w.syscall_cost, "is_alive")
        self._update_exit()
        return not self.task.done

    def join(self, timeout=None):
        sim = self._w.sim
        sim.check_alive()
        if not self.started:
            raise AssertionError("can only join a started process")
        t = self.task
        if timeout is None:
            sim.wait_until(lambda: t.done, "join")
        else:
            deadline = sim.now + max(0.0, timeout)
            me = current_task()
            # poll at the deadline or on completion, whichever comes first
            if not t.done:
                me.blocked_on = lambda: t.done or sim.now >= deadline
                # make sure the clock can advance to the deadline: a helper timer task
                sim.spawn("timer", lambda: None, kind="daemon", delay=max(0.0, timeout))
                try:
                    me.parked_at = "join-timeout"
                    sim._switch(me)
                finally:
                    me.blocked_on = None
                    me.parked_at = ""
        self._update_exit()
        if t.done:
            self.joined = True

    def kill(self):
        self._w.sim.check_alive()
        if self.started:
            self._w.sim.kill(self.task, "Process.kill")
            self._w.sim.yield_(0.0, "kill-sent")

    def terminate(self):
        # SIGTERM: lethal only if the (inherited) disposition is the default one
        self._w.sim.check_alive()
        if self.started:
            if self._w.term_ignored:
                self._w.sim.ev("signal-ignored", self.pid, int(_signal.SIGTERM))
                self._w.sim.count("signal_ignored_by_worker")
            else:
                self._w.sim.kill(self.task, "Process.terminate")
            self._w.sim.yield_(0.0, "kill-sent")

    def close(self):
        pass

    @property
    def ident(self):
        return self.pid

    @property
    def sentinel(self):
        raise UnsupportedSeam("Process.sentinel is not simulated")


class _ProcessDispatch(type):
    def __call__(cls, *a, **kw):
        if _world() is not None:
            return SimProcess(*a, **kw)
        return _real["Process"](*a, **kw)

    def __instancecheck__(cls, inst):
        return isinstance(inst, (SimProcess, _real["Process"]))


class Process(metaclass=_ProcessDispatch):
    """Callable like multiprocessing.Process; yields a SimProcess inside a simulated task."""


# ------------------------------------------------------------------ Manager
class _Request:
    __slots__ = ("conn", "op", "payload", "applied", "result", "dropped", "sender", "proxy")

    def __init__(self, proxy, conn, op, payload, sender):
        self.proxy = proxy
        self.conn, self.op, self.payload, self.sender = conn, op, payload, sender
        self.applied = False
        self.dropped = False
        self.result = None


class SimListProxy:
    """Client side of manager.list().  Every method call is one request/response."""

    def __init__(self, mgr, initial=()):
        self._mgr = mgr
        self._data = list(initial)  # lives "in the manager process"

    def _call(self, op, payload=None):
        mgr, sim = self._mgr, self._mgr.sim
        sim.check_alive()
        me = current_task()
        if mgr.shut:
            raise ConnectionRefusedError("manager is shut down")
        if payload is not None:
            payload = pickle.loads(pickle.dumps(payload, pickle.HIGHEST_PROTOCOL))
        # until the message is completely written a kill loses it
        sim.yield_(0.0, "mgr-send:%s" % op)
        if mgr.shut:
            raise EOFError("manager connection closed")
        req = _Request(self, me.name, op, payload, me)
        mgr.queues.setdefault(me.name, []).append(req)
        sim.ev("sent", op, len(payload) if isinstance(payload, list) else "")
        sim.wait_until(lambda: req.applied or req.dropped, "mgr-wait:%s" % op)
        if req.dropped:
            raise EOFError("manager connection closed")
        xfer = mgr._w.rtt + (len(payload) * mgr._w.item_cost if isinstance(payload, list) else 0.0)
        sim.yield_(xfer, "mgr-ack:%s" % op)
        if me is getattr(sim, "main_task", None) and mgr._w.rtt:
            cap = getattr(sim, "captured", None)
            if cap is not None:
                cap["parent_rtt"] = cap.get("parent_rtt", 0.0) + mgr._w.rtt
        me.attrs["acks"] = me.attrs.get("acks", 0) + 1
        me.attrs["lines_at_ack"] = me.lines
        if isinstance(req.result, BaseException):
            raise req.result
        return req.result

    def _apply(self, req):
        d = self._data
        op, p = req.op, req.payload
        try:
            if op == "extend":
                d.extend(p)
            elif op == "append":
                d.append(p)
            elif op == "__len__":
                return len(d)
            elif op == "__getitem__":
                return copy.deepcopy(d[p])
            elif op == "__contains__":
                return p in d
            elif op == "__setitem__":
                d[p[0]] = p[1]
            elif op == "__delitem__":
                del d[p]
            elif op == "pop":
                return d.pop(*p)
            elif op == "insert":
                d.insert(*p)
            elif op == "remove":
                d.remove(p)
            elif op == "count":
                return d.count(p)
            elif op == "index":
                return d.index(p)
            elif op == "reverse":
                d.reverse()
            elif op == "sort":
                d.sort()
            elif op == "copy":
                return copy.deepcopy(d)
            else:
                raise UnsupportedSeam("list proxy operation %r is not simulated" % op)
        except UnsupportedSeam:
            raise
        except Exception as e:  # remote exception travels back to the caller
            return e
        return None

    # list API exposed by multiprocessing.managers.ListProxy (no __iter__ there either)
    def extend(self, items):
        self._call("extend", list(items))

    def append(self, item):
        self._call("append", item)

    def __iadd__(self, items):
        self._call("extend", list(items))
        return self

    def __len__(self):
        return self._call("__len__")

    def __getitem__(self, i):
        if isinstance(i, slice):
            raise UnsupportedSeam("slicing a list proxy is not simulated")
        return self._call("__getitem__", i)

    def __setitem__(self, i, v):
        self._call("__setitem__", (i, v))

    def __delitem__(self, i):
        self._call("__delitem__", i)

    def __contains__(self, x):
        return self._call("__contains__", x)

    def pop(self, *a):
        return self._call("pop", a)

    def insert(self, i, x):
        self._call("insert", (i, x))

    def remove(self, x):
        self._call("remove", x)

    def count(self, x):
        return self._call("count", x)

    def index(self, x):
        return self._call("index", x)

    def reverse(self):
        self._call("reverse")

    def sort(self):
        self._call("sort")

    def __deepcopy__(self, memo):  # a proxy copied into a child still talks to the same manager
        return self

    def __reduce__(self):
        raise UnsupportedSeam("pickling a list proxy is not simulated")

    def _getvalue(self):
        return self._call("copy")


class SimManager:
    """multiprocessing.Manager(): a server task applying one request at a time.

    One FIFO per client connection; the order between connections is a scheduler choice.
    A request whose sender died after the send is still applied; a sender killed before the
    send completes contributes nothing.  shutdown() drops whatever is still queued."""

    _sim_standin = True

    def __init__(self):
        w = _world()
        self._w, self.sim = w, w.sim
        self.queues = {}
        self.proxies = []
        self.shut = False
        self.started = False
        self.task = None
        w.managers.append(self)
        self.start()

    def start(self):
        if self.started:
            return
        self.started = True
        sim = self.sim

        def pending():
            return [c for c in sorted(self.queues) if self.queues[c]]

        def serve():
            while not self.shut:
                sim.wait_until(lambda: self.shut or bool(pending()), "mgr-idle")
                if self.shut:
                    break
                conns = pending()
                if not conns:
                    continue
                c = conns[sim.choose(len(conns), "mgr-conn")] if len(conns) > 1 else conns[0]
                req = self.queues[c].pop(0)
                req.result = req.proxy._apply(req)
                req.applied = True
                late = req.sender.killed or req.sender.done
                sim.ev("apply", c, req.op, "late" if late else "")
                if late:
                    sim.count("late_apply")

        self.task = sim.spawn("manager%d" % len(self._w.managers), serve, kind="daemon")

    def list(self, initial=()):
        self.sim.check_alive()
        px = SimListProxy(self, initial)
        self.proxies.append(px)
        self.sim.yield_(0.0, "mgr-create")
        return px

    def dict(self, *a, **kw):
        raise UnsupportedSeam("manager.dict() is not simulated")

    def Queue(self, *a, **kw):
        raise UnsupportedSeam("manager.Queue() is not simulated")

    def shutdown(self):
        if self.shut:
            return
        self.shut = True
        dropped = 0
        for c in sorted(self.queues):
            for req in self.queues[c]:
                req.dropped = True
                dropped += 1
            self.queues[c] = []
        self.sim.ev("mgr-shutdown", dropped)
        if dropped:
            self.sim.count("dropped_at_shutdown", dropped)

    def __enter__(self):
        return self

    def __exit__(self, *exc):
        self.shutdown()
        return False


def Manager(*a, **kw):
    if _world() is not None:
        return SimManager()
    return _real["Manager"](*a, **kw)


# ------------------------------------------------------------------ scalars
def cpu_count():
    w = _world()
    if w is not None:
        return w.ncpu
    return _real["cpu_count"]()


def os_cpu_count():
    w = _world()
    if w is not None:
        return w.ncpu
    return _real["os_cpu_count"]()


def sim_time():
    t = current_task()
    if t is not None:
        return EPOCH + t.sim.now
    return _real["time"]()


def sim_monotonic():
    t = current_task()
    if t is not None:
        return 1000.0 + t.sim.now
    return _real["monotonic"]()


def sim_perf_counter():
    t = current_task()
    if t is not None:
        return 1000.0 + t.sim.now
    return _real["perf_counter"]()


def sim_sleep(s):
    t = current_task()
    if t is not None:
        t.sim.yield_(max(0.0, float(s)), "sleep")
        return
    return _real["sleep"](s)


def sim_kill(pid, sig):
    w = _world()
    if w is None:
        return _real["kill"](pid, sig)
    sim = w.sim
    sim.check_alive()
    p = w.by_pid(pid)
    if p is None:
        raise ProcessLookupError(3, "No such process (simulated pid %r)" % (pid,))
    if sig == 0:
        return
    if sig in (_signal.SIGKILL, _signal.SIGTERM, _signal.SIGINT):
        if sig != _signal.SIGKILL and w.term_ignored:
            # the host process ignores / handles / blocks SIGTERM and SIGINT (shell `trap '' TERM`, a
            # server's graceful-shutdown handler) and forked workers inherit that: nothing happens
            sim.ev("signal-ignored", p.pid, int(sig))
            sim.count("signal_ignored_by_worker")
        else:
            sim.kill(p.task, "os.kill")
        sim.yield_(w.syscall_cost, "kill-sent")
        return
    raise UnsupportedSeam("signal %r is not simulated" % (sig,))


def sim_getpid():
    t = current_task()
    if t is not None:
        pid = t.attrs.get("pid")
        if pid is not None:
            return pid
        w = getattr(t.sim, "world", None)
        if w is not None:
            return w.parent_pid
    return _real["getpid"]()


def sim_atexit_register(func, *args, **kwargs):
    """atexit handlers registered by a simulated process belong to that process: they run when the
    simulated process exits normally (run_exit_handlers) and never after a SIGKILL."""
    t = current_task()
    if t is not None:
        t.attrs.setdefault("atexit", []).append((func, args, kwargs))
        return func
    return _real["atexit_register"](func, *args, **kwargs)


def sim_atexit_unregister(func):
    t = current_task()
    if t is not None:
        t.attrs["atexit"] = [h for h in t.attrs.get("atexit", []) if h[0] is not func]
        return None
    return _real["atexit_unregister"](func)


def run_exit_handlers():
    """Called by the body of a simulated process right before it returns (normal interpreter exit)."""
    t = current_task()
    if t is None:
        return
    handlers = t.attrs.get("atexit", [])
    while handlers:
        func, args, kwargs = handlers.pop()
        try:
            func(*args, **kwargs)
        except (SimKilled, core.SimAbort, HarnessError):
            raise
        except Exception:
            pass  # the interpreter prints the traceback and carries on


def _guard_real_start(self):
    if current_task() is not None:
        raise UnsupportedSeam("a real multiprocessing process was started inside the simulation "
                              "(%s)" % type(self).__name__)
    return _real["bp_start"](self)


def _guard_fork():
    if current_task() is not None:
        raise UnsupportedSeam("os.fork inside the simulation")
    return _real["fork"]()


_installed = [False]


def install():
    """Patch the defining modules.  Must run before `osaca` is imported."""
    if _installed[0]:
        return
    _installed[0] = True
    _mp.Process = Process
    _mp.Manager = Manager
    _mp.cpu_count = cpu_count
    os.cpu_count = os_cpu_count
    _time_mod.time = sim_time
    _time_mod.sleep = sim_sleep
    _time_mod.monotonic = sim_monotonic
    _time_mod.perf_counter = sim_perf_counter
    os.kill = sim_kill
    os.getpid = sim_getpid
    os.fork = _guard_fork
    _mp_process.BaseProcess.start = _guard_real_start
    _atexit.register = sim_atexit_register
    _atexit.unregister = sim_atexit_unregister


def rebind_module(mod):
    """Re-point names a module took with `from ... import ...` before install() ran."""
    table = {
        "Process": (_real["Process"], Process),
        "Manager": (_real["Manager"], Manager),
        "cpu_count": (_real["cpu_count"], cpu_count),
        "sleep": (_real["sleep"], sim_sleep),
        "kill": (_real["kill"], sim_kill),
    }
    for name, (real, standin) in table.items():
        if getattr(mod, name, None) is real:
            setattr(mod, name, standin)
    if getattr(mod, "time", None) is _real["time"]:
        mod.time = sim_time


def real_time():
    return _real["time"]()
