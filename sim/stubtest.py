"""Stub fidelity: the stand-ins of procs.py against the real multiprocessing module on seeded
operation sequences.  A disagreement is a harness error (the simulator would be wrong), never a
property violation."""
import multiprocessing as mp
import random

from . import core, procs
from .core import Sim, Chooser

_real_Manager = procs._real["Manager"]
_real_Process = procs._real["Process"]


def _ops(rng, n):
    out = []
    for _ in range(n):
        r = rng.randrange(11)
        if r < 3:
            out.append(("extend", [[rng.randrange(9), rng.random() < 0.5] for _ in range(rng.randrange(4))]))
        elif r == 3:
            out.append(("append", (rng.randrange(9), "x")))
        elif r == 4:
            out.append(("len", None))
        elif r in (5, 6):
            out.append(("getitem", rng.randrange(-3, 8)))
        elif r == 7:
            out.append(("contains", [rng.randrange(9), True]))
        elif r == 8:
            out.append(("pop", None))
        elif r == 9:
            out.append(("list", None))
        else:
            out.append(("count", (1, "x")))
    out.append(("list", None))
    return out


def _apply(px, op, arg):
    try:
        if op == "extend":
            return ("ok", px.extend(arg))
        if op == "append":
            return ("ok", px.append(arg))
        if op == "len":
            return ("ok", len(px))
        if op == "getitem":
            return ("ok", px[arg])
        if op == "contains":
            return ("ok", arg in px)
        if op == "pop":
            return ("ok", px.pop())
        if op == "list":
            return ("ok", list(px))
        if op == "count":
            return ("ok", px.count(arg))
    except Exception as e:
        return ("exc", type(e).__name__)


def list_proxy_sequences(n_seq, seed):
    """Same single-client operation sequence on a real manager list and on the simulated one."""
    errs = []
    rng = random.Random(seed)
    seqs = [_ops(rng, rng.randint(3, 14)) for _ in range(n_seq)]
    real = []
    with _real_Manager() as m:
        for seq in seqs:
            px = m.list()
            real.append([_apply(px, op, arg) for op, arg in seq])
    for i, seq in enumerate(seqs):
        sim = Sim(Chooser(seed=seed + i))
        procs.World(sim, ncpu=2)
        got = []

        def body():
            with procs.Manager() as m:
                px = m.list()
                for op, arg in seq:
                    got.append(_apply(px, op, arg))

        sim.run(body)
        if sim.main_task.exc is not None:
            errs.append("simulated manager raised %r on sequence %d" % (sim.main_task.exc, i))
        elif got != real[i]:
            k = next(j for j, (a, b) in enumerate(zip(got, real[i])) if a != b)
            errs.append("list proxy differs from real ListProxy at op %r: sim %r real %r" % (seq[k], got[k], real[i][k]))
    return errs, len(seqs)


def _child(kind, lst):
    if kind == "ok":
        lst.extend([1, 2])
    elif kind == "exc":
        lst.append(0)
        raise ValueError("boom")
    elif kind == "plain":
        lst.append(5)


def process_semantics():
    """exit codes, is_alive after join, plain-list arguments are copies, start twice."""
    errs = []

    def scenario(Process, Manager, sleep):
        out = {}
        with Manager() as m:
            shared = m.list()
            plain = []
            p1 = Process(target=_child, args=("ok", shared))
            p2 = Process(target=_child, args=("exc", shared))
            p3 = Process(target=_child, args=("plain", plain))
            out["alive_before_start"] = p1.is_alive()
            for p in (p1, p2, p3):
                p.start()
            for p in (p1, p2, p3):
                p.join()
            out["exitcodes"] = [p1.exitcode, p2.exitcode, p3.exitcode]
            out["alive_after_join"] = [p1.is_alive(), p2.is_alive()]
            out["shared"] = sorted(list(shared))
            out["plain_in_parent"] = list(plain)
            try:
                p1.start()
                out["start_twice"] = "allowed"
            except AssertionError:
                out["start_twice"] = "AssertionError"
            q = Process(target=_child, args=("ok", shared))
            try:
                q.join()
                out["join_unstarted"] = "allowed"
            except AssertionError:
                out["join_unstarted"] = "AssertionError"
        return out

    import os
    import sys
    import time as _t
    devnull = open(os.devnull, "w")
    saved = sys.stderr
    try:
        sys.stderr = devnull  # the real child prints its traceback
        ctx = mp.get_context("fork")
        real = scenario(ctx.Process, _real_Manager, procs._real["sleep"])
    finally:
        sys.stderr = saved
        devnull.close()
    sim = Sim(Chooser(seed=1))
    procs.World(sim, ncpu=2)
    got = {}

    def body():
        got.update(scenario(procs.Process, procs.Manager, procs.sim_sleep))

    sim.run(body)
    if sim.main_task.exc is not None:
        errs.append("simulated process scenario raised %r" % (sim.main_task.exc,))
    elif got != real:
        errs.append("process semantics differ: sim %r real %r" % (got, real))
    return errs, 1


def run_all(seed=0, n_seq=40):
    procs.install()
    e1, n1 = list_proxy_sequences(n_seq, seed)
    e2, n2 = process_semantics()
    return e1 + e2, {"list_proxy_sequences_compared_with_real_manager": n1, "process_scenarios_compared_with_real_fork": n2}
