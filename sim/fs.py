"""Simulated file-system layer: real files below a per-episode root, every access made by a
simulated process intercepted at io.open / os.* so that each syscall-sized step is a scheduling
point and a fault point.  Installed once per OS process on the defining modules; calls from
threads that are not simulated processes, or for paths outside the active root, pass through.
"""
import builtins
import errno
import io
import os
import stat as _stat

from .core import current_task, SimKilled, HarnessError

_real = {
    "open": io.open, "os_open": os.open, "os_close": os.close, "os_write": os.write, "os_read": os.read,
    "stat": os.stat, "lstat": os.lstat, "access": os.access, "mkdir": os.mkdir,
    "replace": os.replace, "rename": os.rename, "unlink": os.unlink, "remove": os.remove,
    "fsync": os.fsync, "listdir": os.listdir, "scandir": os.scandir, "rmdir": os.rmdir,
    "chmod": os.chmod, "truncate": os.truncate, "link": os.link,
}

CHUNKS = ("all", "all", "half", "4096", "1")
import re as _re
_PID_TMP = _re.compile(r"\.pickle\.\d+\.tmp$")  # simulated pids are deterministic, such names are stable


class SimRaw(io.RawIOBase):
    """Raw file over a real fd; every read / write chunk is an FS event of the owning process."""

    def __init__(self, fs, path, fd, readable, writable, append=False):
        self.fs, self.path, self.fd = fs, path, fd
        self._r, self._w = readable, writable
        self.name = path
        self.mode = "rb" if not writable else ("ab" if append else "wb")

    def readable(self):
        return self._r

    def writable(self):
        return self._w

    def seekable(self):
        return True

    def seek(self, off, wh=0):
        return os.lseek(self.fd, off, wh)

    def tell(self):
        return os.lseek(self.fd, 0, 1)

    def fileno(self):
        return self.fd

    def truncate(self, size=None):
        if size is None:
            size = self.tell()
        self.fs.point("truncate", self.path, mutation=True)
        os.ftruncate(self.fd, size)
        return size

    def readinto(self, b):
        self.fs.point("read", self.path)
        data = _real["os_read"](self.fd, len(b))
        b[: len(data)] = data
        return len(data)

    def write(self, b):
        b = bytes(b)
        n = 0
        fs = self.fs
        policy = fs.chunk_policy
        first = not getattr(self, "_wrote", False)
        self._wrote = True
        while n < len(b):
            rem = len(b) - n
            if policy is None:
                mode = CHUNKS[fs.sim.choose(len(CHUNKS), "chunk")]
                k = rem if mode == "all" else max(1, rem // 2) if mode == "half" else min(rem, 4096) if mode == "4096" else 1
            elif policy == "header" and first and n == 0:
                k = min(rem, 8)
            elif policy == "lastbyte":
                k = rem - 1 if rem > 1 else 1
            else:
                k = min(rem, 4096)
            fs.point("write", self.path, mutation=True, can_error=True, nbytes=k)
            _real["os_write"](self.fd, b[n: n + k])
            fs.note_dirty(self.fd)
            n += k
        return len(b)

    def close(self):
        if self.fd is not None and not self.closed:
            fd, self.fd = self.fd, None
            try:
                if self._w:
                    t = current_task()
                    if t is not None and not t.killed and not t.sim.aborting and t.sim is self.fs.sim:
                        self.fs.point("close", self.path, mutation=True)
            finally:
                self.fs.fds.pop(fd, None)
                try:
                    _real["os_close"](fd)
                finally:
                    super().close()


class SimFS:
    active = None  # the SimFS of the episode currently running in this OS process

    def __init__(self, sim, root):
        self.sim, self.root = sim, os.path.abspath(root)
        self.readonly = set()     # absolute directory paths without write permission
        self.fds = {}             # fd -> (path, writable) of files opened through os.open by sim procs
        self.dirty = set()        # inodes written since the episode began and not fsynced
        self.stats = {}
        self.tmp_names = {}
        self.chunk_policy = None  # None: chooser decides; "4096" | "header" | "lastbyte": forced (sweep)

    # ---- helpers -----------------------------------------------------------
    def proc(self):
        t = current_task()
        if t is None or t.sim is not self.sim or t.kind != "proc":
            return None
        return t

    def mine(self, path):
        t = self.proc()
        if t is None:
            return None
        if isinstance(path, int):
            return None
        try:
            p = os.fspath(path)
        except TypeError:
            return None
        if isinstance(p, bytes):
            try:
                p = p.decode()
            except UnicodeDecodeError:
                return None
        p = os.path.abspath(p)
        if p == self.root or p.startswith(self.root + os.sep):
            return p
        return None

    def rel(self, path):
        r = os.path.relpath(path, self.root)
        d, b = os.path.split(r)
        if b.endswith((".yml", ".s", ".pickle")) or _PID_TMP.search(b) or b in ("data", "cache", "isa", ".osaca", "home", "pkg", "kernels") or "." not in b and len(b) < 12:
            return r
        k = self.tmp_names.setdefault(r, len(self.tmp_names))
        return os.path.join(d, "<tmp#%d>" % k)

    def count(self, key, n=1):
        self.stats[key] = self.stats.get(key, 0) + n

    def note_dirty(self, fd):
        try:
            self.dirty.add(_real["stat"](fd).st_ino)
        except OSError:
            pass

    def writable_dir(self, d):
        return d not in self.readonly

    def point(self, op, path, mutation=False, can_error=False, nbytes=None):
        """One FS event of the calling simulated process: fault decision, then a yield."""
        t = current_task()
        sim = self.sim
        sim.check_alive()
        rel = self.rel(path)
        self.count("fs_" + op)
        if mutation:
            n = t.attrs["mut"] = t.attrs.get("mut", 0) + 1
            plan = t.attrs.get("fault")
            if plan is not None and not plan.get("fired"):
                if plan["kind"] == "crash" and plan["at"] == n:
                    plan["fired"] = True
                    plan["where"] = (op, rel, nbytes)
                    sim.ev("FAULT", "crash", op, rel)
                    self.count("fault_process_crash")
                    self.count("fault_crash@" + op)
                    sim.kill(t, "crash")
                    raise SimKilled()
                if plan["kind"] in ("enospc", "eio") and can_error and plan["at"] <= n:
                    plan["fired"] = True
                    plan["where"] = (op, rel, nbytes)
                    sim.ev("FAULT", plan["kind"], op, rel)
                    self.count("fault_write_error_" + plan["kind"])
                    code = errno.ENOSPC if plan["kind"] == "enospc" else errno.EIO
                    raise OSError(code, os.strerror(code), path)
        hook = t.attrs.get("fs_hook")
        if hook is not None and not hook.get("fired") and op == hook["op"] and path == hook["path"]:
            hook["count"] = hook.get("count", 0) + 1
            if hook["count"] == hook["n"]:
                # an external actor (the user's editor) touches the file system right before this call
                hook["fired"] = True
                sim.ev("FAULT", "external-edit", op, rel, hook["n"])
                self.count("fault_model_edited_during_run")
                hook["action"]()
        sim.yield_(0.0, "fs:%s:%s" % (op, rel))

    # ---- machine crash -------------------------------------------------------
    def machine_crash(self, chooser):
        """Power loss: every file written since the episode began and never fsynced is cut to a
        chosen prefix (renames are durable, data is not).  Returns description of the cuts."""
        cuts = []
        for dirpath, dirs, files in os.walk(self.root):
            dirs.sort()
            for f in sorted(files):
                p = os.path.join(dirpath, f)
                st = _real["stat"](p)
                if st.st_ino in self.dirty:
                    size = st.st_size
                    cls = ("full", "zero", "header", "mid", "lastbyte")[chooser.choose(5, "cut")]
                    new = {"full": size, "zero": 0, "header": min(size, 2 + chooser.choose(9, "hdr")),
                           "mid": size // 2, "lastbyte": max(0, size - 1)}[cls]
                    if new < size:
                        _real["truncate"](p, new)
                        self.count("fault_machine_crash_cut_" + cls)
                    cuts.append((os.path.relpath(p, self.root), cls, size, new))
        self.dirty.clear()
        self.count("fault_machine_crash")
        return cuts


# ------------------------------------------------------------------ interception
def _fs_for(path):
    fs = SimFS.active
    if fs is None:
        return None, None
    p = fs.mine(path)
    return (fs, p) if p is not None else (None, None)


def _parse_mode(mode):
    m = mode.replace("b", "").replace("t", "")
    plus = "+" in m
    m = m.replace("+", "")
    return m, plus, "b" in mode


def s_open(file, mode="r", buffering=-1, encoding=None, errors=None, newline=None, closefd=True, opener=None):
    fs = SimFS.active
    if fs is not None and isinstance(file, int) and file in fs.fds and fs.proc() is not None:
        path, wr = fs.fds[file]
        m, plus, binary = _parse_mode(mode)
        raw = SimRaw(fs, path, file, m == "r" or plus, m != "r" or plus, append=(m == "a"))
        return _wrap(raw, m, plus, binary, buffering, encoding, errors, newline)
    fs, p = _fs_for(file) if not isinstance(file, int) else (None, None)
    if fs is None:
        return _real["open"](file, mode, buffering, encoding, errors, newline, closefd, opener)
    m, plus, binary = _parse_mode(mode)
    writing = m in ("w", "a", "x") or plus
    fs.point("open-" + m + ("+" if plus else ""), p, mutation=writing)
    t = current_task()
    if writing:
        d = os.path.dirname(p)
        if not fs.writable_dir(d) and not os.path.exists(p):
            raise PermissionError(errno.EACCES, "Permission denied (simulated)", p)
        if not fs.writable_dir(d) and m in ("w", "a", "x"):
            raise PermissionError(errno.EACCES, "Permission denied (simulated)", p)
        plan = t.attrs.get("fault")
        if plan is not None and plan["kind"] == "eacces" and not plan.get("fired"):
            plan["fired"] = True
            plan["where"] = ("open", fs.rel(p), None)
            fs.sim.ev("FAULT", "eacces", fs.rel(p))
            fs.count("fault_open_eacces")
            raise PermissionError(errno.EACCES, "Permission denied (injected)", p)
    flags = {"r": os.O_RDONLY, "w": os.O_WRONLY | os.O_CREAT | os.O_TRUNC,
             "a": os.O_WRONLY | os.O_CREAT | os.O_APPEND, "x": os.O_WRONLY | os.O_CREAT | os.O_EXCL}[m]
    if plus:
        flags = (flags & ~(os.O_WRONLY | os.O_RDONLY)) | os.O_RDWR
    fd = _real["os_open"](p, flags, 0o644)
    if m == "w":
        fs.note_dirty(fd)
    raw = SimRaw(fs, p, fd, m == "r" or plus, writing, append=(m == "a"))
    return _wrap(raw, m, plus, binary, buffering, encoding, errors, newline)


def _wrap(raw, m, plus, binary, buffering, encoding, errors, newline):
    if buffering == 0:
        if not binary:
            raise ValueError("can't have unbuffered text I/O")
        return raw
    bs = buffering if buffering and buffering > 1 else io.DEFAULT_BUFFER_SIZE
    if plus:
        buf = io.BufferedRandom(raw, bs)
    elif m == "r":
        buf = io.BufferedReader(raw, bs)
    else:
        buf = io.BufferedWriter(raw, bs)
    if binary:
        return buf
    return io.TextIOWrapper(buf, encoding=encoding, errors=errors, newline=newline, line_buffering=(buffering == 1))


def s_os_open(path, flags, mode=0o777, *, dir_fd=None):
    fs, p = _fs_for(path) if dir_fd is None else (None, None)
    if fs is None:
        if dir_fd is None:
            return _real["os_open"](path, flags, mode)
        return _real["os_open"](path, flags, mode, dir_fd=dir_fd)
    writing = bool(flags & (os.O_WRONLY | os.O_RDWR | os.O_CREAT | os.O_TRUNC))
    fs.point("os.open", p, mutation=writing)
    if writing and not fs.writable_dir(os.path.dirname(p)):
        raise PermissionError(errno.EACCES, "Permission denied (simulated)", p)
    t = current_task()
    plan = t.attrs.get("fault")
    if writing and plan is not None and plan["kind"] == "eacces" and not plan.get("fired"):
        plan["fired"] = True
        plan["where"] = ("os.open", fs.rel(p), None)
        fs.sim.ev("FAULT", "eacces", fs.rel(p))
        fs.count("fault_open_eacces")
        raise PermissionError(errno.EACCES, "Permission denied (injected)", p)
    fd = _real["os_open"](p, flags, mode)
    fs.fds[fd] = (p, writing)
    if flags & os.O_TRUNC:
        fs.note_dirty(fd)
    return fd


def s_os_close(fd):
    fs = SimFS.active
    if fs is not None and fd in fs.fds and fs.proc() is not None:
        p, wr = fs.fds.pop(fd)
        if wr:
            fs.point("close", p, mutation=True)
    return _real["os_close"](fd)


def s_os_write(fd, data):
    fs = SimFS.active
    if fs is not None and fd in fs.fds and fs.proc() is not None:
        p, wr = fs.fds[fd]
        fs.point("write", p, mutation=True, can_error=True, nbytes=len(data))
        n = _real["os_write"](fd, data)
        fs.note_dirty(fd)
        return n
    return _real["os_write"](fd, data)


def _wrap1(name, op, mutation=False, need_writable_parent=False):
    real = _real[name]

    def f(path=".", *a, **kw):
        fs, p = _fs_for(path) if "dir_fd" not in kw else (None, None)
        if fs is None:
            return real(path, *a, **kw)
        fs.point(op, p, mutation=mutation)
        if need_writable_parent and not fs.writable_dir(os.path.dirname(p)):
            raise PermissionError(errno.EACCES, "Permission denied (simulated)", p)
        return real(p, *a, **kw)

    f.__name__ = name
    return f


def _wrap2(name, op):
    real = _real[name]

    def f(src, dst, *a, **kw):
        fs, ps = _fs_for(src) if not kw else (None, None)
        if fs is None:
            return real(src, dst, *a, **kw)
        pd = fs.mine(dst)
        if pd is None:
            raise HarnessError("%s from the simulated root to outside (%r -> %r)" % (name, src, dst))
        fs.point(op, pd, mutation=True)
        if not fs.writable_dir(os.path.dirname(pd)) or not fs.writable_dir(os.path.dirname(ps)):
            raise PermissionError(errno.EACCES, "Permission denied (simulated)", pd)
        r = real(ps, pd)
        fs.sim.ev("renamed", fs.rel(ps), fs.rel(pd))
        return r

    f.__name__ = name
    return f


def s_access(path, mode, **kw):
    fs, p = _fs_for(path) if not kw else (None, None)
    if fs is None:
        return _real["access"](path, mode, **kw)
    fs.point("access", p)
    if not os.path.lexists(p):
        return False
    if mode & os.W_OK and p in fs.readonly:
        return False
    return True


def s_fsync(fd):
    fs = SimFS.active
    if fs is not None and fs.proc() is not None:
        try:
            st = _real["stat"](fd)
        except OSError:
            st = None
        path = None
        if isinstance(fd, int) and fd in fs.fds:
            path = fs.fds[fd][0]
        if st is not None and (path is not None or st.st_ino in fs.dirty):
            fs.point("fsync", path or os.path.join(fs.root, "<fd>"), mutation=True)
            fs.dirty.discard(st.st_ino)
            fs.count("fsync")
    return _real["fsync"](fd)


_installed = [False]


def install():
    if _installed[0]:
        return
    _installed[0] = True
    io.open = s_open
    builtins.open = s_open
    os.open = s_os_open
    os.close = s_os_close
    os.write = s_os_write
    os.stat = _wrap1("stat", "stat")
    os.lstat = _wrap1("lstat", "stat")
    os.access = s_access
    os.mkdir = _wrap1("mkdir", "mkdir", mutation=True, need_writable_parent=True)
    os.replace = _wrap2("replace", "replace")
    os.rename = _wrap2("rename", "rename")
    os.link = _wrap2("link", "link")
    os.unlink = _wrap1("unlink", "unlink", mutation=True, need_writable_parent=True)
    os.remove = _wrap1("remove", "unlink", mutation=True, need_writable_parent=True)
    os.rmdir = _wrap1("rmdir", "rmdir", mutation=True, need_writable_parent=True)
    os.listdir = _wrap1("listdir", "listdir")
    os.scandir = _wrap1("scandir", "listdir")
    os.chmod = _wrap1("chmod", "chmod", mutation=True)
    os.truncate = _wrap1("truncate", "truncate", mutation=True)
    os.fsync = s_fsync


def real(name):
    return _real[name]
