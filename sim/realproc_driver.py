"""Stub-fidelity driver for C19: one KernelDG construction with the REAL multiprocessing module,
real SIGKILL and the real clock.  Prints one JSON line with what the oracle needs.  No wall-clock
assertion is made by the caller (post-processing cost is performance, not schedule).
usage: realproc_driver.py <arch> <kernel file> <timeout> <ncpu> <threshold|-> """
import json
import multiprocessing
import os
import sys
import time

repo = os.environ.get("VERIF_REPO", "/repo")
sys.path.insert(0, repo)
sys.path.insert(1, os.path.dirname(os.path.dirname(os.path.abspath(__file__))))
arch, path, timeout, ncpu, thr = sys.argv[1], sys.argv[2], float(sys.argv[3]), int(sys.argv[4]), sys.argv[5]
if timeout == int(timeout):
    timeout = int(timeout)
multiprocessing.cpu_count = lambda: ncpu
import osaca.utils as u  # noqa: E402

root = os.environ["VERIF_SCRATCH_ROOT"]
u.DATA_DIRS = [os.path.join(root, "data")]
u.CACHE_DIR = os.path.join(root, "home", ".osaca", "cache")
import osaca.osaca as o  # noqa: E402
import osaca.semantics.kernel_dg as kd  # noqa: E402
from osaca.semantics import MachineModel, ArchSemantics, reduce_to_section  # noqa: E402

if hasattr(kd, "cpu_count"):
    kd.cpu_count = lambda: ncpu
if thr != "-":
    kd.KernelDG.INSTRUCTION_THRESHOLD = int(thr)
captured = []
orig = kd.KernelDG.create_DG


def create_DG(self, kernel, *a, **kw):
    dg = orig(self, kernel, *a, **kw)
    captured.append(dg)
    return dg


kd.KernelDG.create_DG = create_DG
isa = MachineModel.get_isa_for_arch(arch)
parser = o.get_asm_parser(arch)
kernel = reduce_to_section(parser.parse_file(open(path).read()), isa)
mm = MachineModel(arch=arch)
sem = ArchSemantics(mm)
sem.add_semantics(kernel)
sem.assign_optimal_throughput(kernel)
t0 = time.time()
kg = kd.KernelDG(kernel, parser, mm, sem, timeout)
elapsed = time.time() - t0
children = [p.pid for p in multiprocessing.active_children()]
from sim.lcd import validate_chain  # noqa: E402

dg2 = captured[-1]
offset = max(1000, max(i.line_number for i in kernel))
unsound = []
lcd = kg.get_loopcarried_dependencies()
for k, v in lcd.items():
    chain = [(n.line_number, l) for n, l in v["dependencies"]]
    ok, info = validate_chain(dg2, offset, chain)
    if not ok or info != v["latency"]:
        unsound.append([k, str(info), v["latency"]])
        if len(unsound) > 3:
            break
print("RESULT " + json.dumps({"timed_out": bool(kg.timed_out), "n_lcd": len(lcd), "unsound": unsound,
                              "children_alive": children, "elapsed": round(elapsed, 2), "klen": len(kernel)}))
sys.stdout.flush()
# do not let multiprocessing's exit handler wait for workers a broken tree left running: the caller
# kills this process group
os._exit(0)
