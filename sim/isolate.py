"""Process-private Python state: every simulated OSACA process gets its own freshly imported
copy of the `osaca` package; the scheduler swaps that copy into sys.modules whenever the
process holds the baton (so pickle resolves classes to the process's own copy)."""
import importlib
import sys

from . import procs


def _osaca_keys():
    return [k for k in sys.modules if k == "osaca" or k.startswith("osaca.")]


def snapshot():
    return {k: sys.modules[k] for k in _osaca_keys()}


def restore(snap):
    for k in _osaca_keys():
        if k not in snap:
            del sys.modules[k]
    sys.modules.update(snap)


def fresh_osaca(data_dirs, cache_dir):
    """Import a new copy of the package; returns its module dict.  sys.modules is left as found."""
    saved = snapshot()
    for k in list(saved):
        del sys.modules[k]
    try:
        importlib.import_module("osaca.osaca")
        mods = snapshot()
    finally:
        for k in _osaca_keys():
            del sys.modules[k]
        sys.modules.update(saved)
    u = mods["osaca.utils"]
    u.DATA_DIRS = list(data_dirs)
    u.CACHE_DIR = cache_dir
    for m in mods.values():
        procs.rebind_module(m)
    return mods


def switch_hook(task):
    mods = task.attrs.get("mods")
    if mods is not None:
        sys.modules.update(mods)
