"""Minimisation of a failing (spec, choices) pair.  `test(spec, choices)` must return the
violation key (class, site) observed, or None.  A candidate is kept only if the same key
persists.  Budgeted by number of re-executions."""


def shrink(spec, choices, key, test, spec_shrinkers=(), budget=300, wall_s=150.0):
    import time as _t
    runs = [0]
    t_end = _t.perf_counter() + wall_s  # (real clock: this is harness code outside any simulation)

    def ok(s, c):
        if runs[0] >= budget or _t.perf_counter() > t_end:
            runs[0] = max(runs[0], budget)
            return False
        runs[0] += 1
        try:
            return test(s, c) == key
        except Exception:
            return False

    choices = list(choices)
    # 1. truncate the choice list (binary search for the shortest failing prefix)
    lo, hi = 0, len(choices)
    while lo < hi and runs[0] < budget:
        mid = (lo + hi) // 2
        if ok(spec, choices[:mid]):
            hi = mid
        else:
            lo = mid + 1
    if hi < len(choices) and ok(spec, choices[:hi]):
        choices = choices[:hi]
    # 2. shrink the input
    changed = True
    while changed and runs[0] < budget:
        changed = False
        for sh in spec_shrinkers:
            for cand in sh(spec):
                if runs[0] >= budget:
                    break
                if ok(cand, choices):
                    spec = cand
                    changed = True
                    break
    # 3. delete spans / zero single values
    n = len(choices)
    span = max(1, n // 2)
    while span >= 1 and runs[0] < budget:
        i = 0
        while i < len(choices) and runs[0] < budget:
            cand = choices[:i] + choices[i + span:]
            if cand != choices and ok(spec, cand):
                choices = cand
            else:
                i += span
        span //= 2
    for i in range(len(choices)):
        if runs[0] >= budget:
            break
        if choices[i] != 0:
            cand = choices[:i] + [0] + choices[i + 1:]
            if ok(spec, cand):
                choices = cand
    while choices and choices[-1] == 0:
        choices.pop()
    return spec, choices, runs[0]


def drop_text_lines(field_path):
    """Spec shrinker: drop chunks of lines of a text field (spec[...][...])."""

    def get(spec):
        x = spec
        for k in field_path:
            x = x[k]
        return x

    def put(spec, val):
        import copy
        s = copy.deepcopy(spec)
        x = s
        for k in field_path[:-1]:
            x = x[k]
        x[field_path[-1]] = val
        return s

    def sh(spec):
        lines = get(spec).split("\n")
        n = len(lines)
        size = max(1, n // 2)
        while size >= 1:
            for i in range(0, n, size):
                cand = lines[:i] + lines[i + size:]
                if len([l for l in cand if l.strip()]) >= 1 and cand != lines:
                    yield put(spec, "\n".join(cand))
            size //= 2

    return sh


def lower_int(key, floor=1):
    def sh(spec):
        v = spec.get(key)
        if isinstance(v, int) and v > floor:
            for cand in sorted({floor, v // 2, v - 1}):
                if floor <= cand < v:
                    s = dict(spec)
                    s[key] = cand
                    yield s

    return sh
