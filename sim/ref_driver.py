"""Fresh-process reference for C18: one analysis through the real entry point, nothing else loaded
before it.  Usage: ref_driver.py '<json argv>'.  Prints 'REPORT\n' + report (timestamp stripped) or
an 'EXC <type>: <msg>' line, exactly as the history process renders its elements."""
import io
import json
import os
import sys

repo = os.environ.get("VERIF_REPO", "/repo")
sys.path.insert(0, repo)
import osaca.utils as u  # noqa: E402

root = os.environ["VERIF_SCRATCH_ROOT"]
u.DATA_DIRS = [os.path.join(root, "data")]
u.CACHE_DIR = os.path.join(root, "home", ".osaca", "cache")
import osaca.osaca as o  # noqa: E402

argv = json.loads(sys.argv[1])
args = None
buf = io.StringIO()
try:
    p = o.create_parser()
    args = p.parse_args(argv)
    o.check_arguments(args, p)
    o.run(args, output_file=buf)
    s = buf.getvalue()
except SystemExit as e:
    s = "EXC SystemExit: %r" % (e.code,)
except BaseException as e:
    s = "EXC %s: %s" % (type(e).__name__, str(e)[:300])
s = "\n".join(l for l in s.split("\n") if not l.startswith("Timestamp:"))
sys.stdout.write("REPORT\n" + s.replace(root, "<root>"))
