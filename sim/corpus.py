"""Kernel corpus: shipped kernels, padded variants that cross the 50-line threshold unpatched,
and generated kernels (sparse/tractable and dense/intractable), all deterministic in a seed."""
import glob
import os
import random

from . import env


# ------------------------------------------------------------------ shipped
def shipped_kernels():
    """[(name, isa, text)] — every example and test kernel of the working tree."""
    out = []
    ex = os.path.join(env.REPO, "examples")
    tf = os.path.join(env.REPO, "tests", "test_files")
    for p in sorted(glob.glob(os.path.join(ex, "*", "*.s"))):
        base = os.path.basename(p)
        isa = "aarch64" if ".tx2." in base else "x86"
        out.append((os.path.relpath(p, env.REPO), isa, open(p).read()))
    for base, isa in [
        ("kernel_x86.s", "x86"), ("kernel_x86_memdep.s", "x86"), ("kernel_x86_long_LCD.s", "x86"),
        ("kernel_aarch64.s", "aarch64"), ("kernel_aarch64_memdep.s", "aarch64"),
        ("kernel_aarch64_sve.s", "aarch64"), ("kernel_aarch64_deps.s", "aarch64"),
        ("triad_x86_iaca.s", "x86"), ("triad_arm_iaca.s", "aarch64"),
    ]:
        p = os.path.join(tf, base)
        if os.path.exists(p):
            out.append((os.path.relpath(p, env.REPO), isa, open(p).read()))
    return out


def kernel_lines(text, isa):
    """Source lines of the marked section, using the real parser and marker search."""
    import osaca.osaca as o
    from osaca.semantics import reduce_to_section
    parser = o.get_asm_parser("zen1" if isa == "x86" else "tx2")
    k = reduce_to_section(parser.parse_file(text), isa)
    return [l.line for l in k]


# ------------------------------------------------------------------ fillers / padding
def _filler(isa, rng, i):
    """A line that adds no dependency on the kernel's registers (uses high registers)."""
    kind = rng.randrange(4)
    if isa == "x86":
        if kind == 0:
            return "\tmovl\t$%d, %%r15d" % (i + 1)
        if kind == 1:
            return "\tvmovapd\t%xmm14, %xmm15"
        if kind == 2:
            return "\taddq\t$%d, %%r14" % (1 + i % 7)  # one-line LCD of its own
        return "\t# filler %d" % i
    if kind == 0:
        return "\tmov\tx28, #%d" % (i + 1)
    if kind == 1:
        return "\tfmov\td31, d30"
    if kind == 2:
        return "\tadd\tx27, x27, #%d" % (1 + i % 7)
    return "\t// filler %d" % i


def pad_kernel(lines, isa, rng, target):
    """Interleave filler lines until at least `target` *instruction* lines exist."""
    out = list(lines)
    i = 0
    while sum(1 for l in out if _is_instr(l)) < target:
        pos = rng.randrange(len(out) + 1)
        out.insert(pos, _filler(isa, rng, i))
        i += 1
    return "\n".join(out) + "\n"


def repeat_kernel(lines, times):
    return "\n".join(list(lines) * times) + "\n"


def _is_instr(l):
    s = l.strip()
    if not s or s.startswith("#") or s.startswith("//") or s.startswith(".") and not s.startswith(".L") or s.endswith(":"):
        return False
    if s.startswith(".L") and ":" in s:
        return False
    return True


# ------------------------------------------------------------------ generators
class Gen:
    def __init__(self, isa, rng):
        self.isa, self.rng = isa, rng
        self.nvec = 16 if isa == "x86" else 32
        self.ngpr = 8

    # register names
    def v(self, i):
        i %= self.nvec
        return "%%xmm%d" % i if self.isa == "x86" else "d%d" % i

    def g(self, i):
        if self.isa == "x86":
            return "%" + ["rax", "rbx", "rcx", "rdx", "rsi", "rdi", "r8", "r9", "r10", "r11"][i % 10]
        return "x%d" % (i % 12)

    # instructions: dst <- f(a, b)
    def op2(self, dst, a, b, which=None):
        r = self.rng.randrange(3) if which is None else which
        if self.isa == "x86":
            m = ["vaddpd", "vmulpd", "vsubpd"][r]
            return "\t%s\t%s, %s, %s" % (m, self.v(a), self.v(b), self.v(dst))
        m = ["fadd", "fmul", "fsub"][r]
        return "\t%s\t%s, %s, %s" % (m, self.v(dst), self.v(a), self.v(b))

    def fma(self, acc, a, b):
        if self.isa == "x86":
            return "\tvfmadd231pd\t%s, %s, %s" % (self.v(a), self.v(b), self.v(acc))
        return "\tfmadd\t%s, %s, %s, %s" % (self.v(acc), self.v(a), self.v(b), self.v(acc))

    def gadd_imm(self, r, imm):
        if self.isa == "x86":
            return "\taddq\t$%d, %s" % (imm, self.g(r))
        return "\tadd\t%s, %s, #%d" % (self.g(r), self.g(r), imm)

    def gadd(self, dst, a):
        if self.isa == "x86":
            return "\taddq\t%s, %s" % (self.g(a), self.g(dst))
        return "\tadd\t%s, %s, %s" % (self.g(dst), self.g(dst), self.g(a))

    def gmov(self, dst, a):
        if self.isa == "x86":
            return "\tmovq\t%s, %s" % (self.g(a), self.g(dst))
        return "\tmov\t%s, %s" % (self.g(dst), self.g(a))

    def load(self, dst, base, off, mode=0):
        if self.isa == "x86":
            return "\tvmovsd\t%d(%s), %s" % (off, self.g(base), self.v(dst))
        if mode == 1:
            return "\tldr\t%s, [%s], #%d" % (self.v(dst), self.g(base), off or 8)
        if mode == 2:
            return "\tldr\t%s, [%s, #%d]!" % (self.v(dst), self.g(base), off or 8)
        return "\tldr\t%s, [%s, #%d]" % (self.v(dst), self.g(base), off)

    def store(self, src, base, off, mode=0):
        if self.isa == "x86":
            return "\tvmovsd\t%s, %d(%s)" % (self.v(src), off, self.g(base))
        if mode == 1:
            return "\tstr\t%s, [%s], #%d" % (self.v(src), self.g(base), off or 8)
        return "\tstr\t%s, [%s, #%d]" % (self.v(src), self.g(base), off)

    def loop_end(self, r):
        if self.isa == "x86":
            return ["\tcmpq\t%s, %s" % (self.g(r), self.g(r + 1)), "\tjne\t.L1"]
        return ["\tcmp\t%s, %s" % (self.g(r), self.g(r + 1)), "\tb.ne\t.L1"]

    def noise(self, i):
        r = self.rng.randrange(4)
        if r == 0:
            return ".L%d:" % (100 + i)
        if r == 1:
            return "\t# note %d" % i if self.isa == "x86" else "\t// note %d" % i
        if r == 2:
            return "\t.p2align 4"
        return ""


def gen_kernel(isa, rng, n, shape=None, noise=True):
    """Generate a kernel of about n instruction lines.  Returns (shape, text)."""
    g = Gen(isa, rng)
    shape = shape or rng.choice(["chains", "ring1", "sparse_dag", "bump_mem", "mixed", "ring2_short"])
    L = [".L1:"]
    if shape == "chains":
        c = rng.randint(1, min(6, n))
        for j in range(n):
            a = j % c
            if rng.random() < 0.5:
                L.append(g.op2(a, a, 8 + (j % 4)))
            else:
                L.append(g.fma(a, 8 + (j % 4), 12 + (j % 3)))
    elif shape == "ring1":
        k = rng.randint(2, 8)
        for j in range(n):
            L.append(g.op2(j % k, (j - 1) % k, 12 + j % 3))
    elif shape == "ring2_short":
        k = rng.randint(3, 6)
        m = min(n, rng.randint(4, 14))
        for j in range(m):
            L.append(g.op2(j % k, (j - 1) % k, (j - 2) % k))
        for j in range(n - m):
            L.append(g.gadd_imm(4 + j % 3, 8))
    elif shape == "sparse_dag":
        p = rng.randint(10, g.nvec)
        for j in range(n):
            d = rng.randrange(p)
            a = rng.randrange(p)
            b = rng.randrange(p)
            L.append(g.op2(d, a, b))
    elif shape == "bump_mem":
        nptr = rng.randint(1, 3)
        for j in range(n):
            r = rng.randrange(6)
            base = j % nptr
            if r == 0:
                L.append(g.gadd_imm(base, 8 * rng.randint(1, 4)))
            elif r == 1:
                L.append(g.store(j % 4, base, 8 * rng.randint(0, 3)))
            elif r == 2:
                L.append(g.load(4 + j % 4, base, 8 * rng.randint(0, 3), rng.randrange(3)))
            elif r == 3:
                L.append(g.op2(j % 4, j % 4, 4 + j % 4))
            elif r == 4:
                L.append(g.gmov(3 + j % 2, base))
            else:
                L.append(g.fma(j % 4, 4 + j % 4, 8 + j % 4))
    elif shape == "wb_both":
        # write-back loads whose data register AND updated base register are both consumed by the next
        # instruction: one dependent reached through two kinds of dependency (plain and post/pre-indexed)
        if isa == "x86":
            return gen_kernel(isa, rng, n, "bump_mem", noise)
        for j in range(n // 2):
            base, data = j % 3, 5 + j % 4
            if j % 2 == 0:
                L.append("\tldr\tx%d, [x%d], #8" % (data, base))
            else:
                L.append("\tldr\tx%d, [x%d, #8]!" % (data, base))
            L.append("\tadd\tx%d, x%d, x%d" % (base, base, data))
    elif shape == "ladder":
        # single-instruction LCDs first (pointer bumps, counters), then a ladder of k diamonds on one
        # accumulator (2^k cycles through it, thousands of raw paths), then independent padding
        k = 7
        for j in range(3):
            L.append(g.gadd_imm(j, 8))
        for j in range(k):
            L.append(g.op2(1, 0, 10, which=0))
            L.append(g.op2(2, 0, 11, which=1))
            L.append(g.op2(0, 1, 2, which=0))
        j = 0
        while len(L) < n + 1:
            L.append(g.op2(12 + j % 3, 13, 14, which=j % 3) if j % 2 else g.gmov(5 + j % 3, 4))
            j += 1
    else:  # mixed
        for j in range(n):
            r = rng.randrange(7)
            if r < 2:
                L.append(g.op2(rng.randrange(12), rng.randrange(12), rng.randrange(12)))
            elif r == 2:
                L.append(g.fma(rng.randrange(6), rng.randrange(12), rng.randrange(12)))
            elif r == 3:
                L.append(g.gadd_imm(rng.randrange(4), 8))
            elif r == 4:
                L.append(g.load(rng.randrange(12), rng.randrange(4), 8 * rng.randrange(4), rng.randrange(3)))
            elif r == 5:
                L.append(g.store(rng.randrange(12), rng.randrange(4), 8 * rng.randrange(4)))
            else:
                L.append(g.gadd(rng.randrange(4), rng.randrange(4)))
    L.extend(g.loop_end(6))
    if noise:
        out = []
        for i, l in enumerate(L):
            out.append(l)
            if rng.random() < 0.12:
                x = g.noise(i)
                if x:
                    out.append(x)
        L = out
    return shape, "\n".join(L) + "\n"


def gen_dense_kernel(isa, rng, n, shape=None):
    """Kernels with exponentially many dependency paths (for the timeout property)."""
    g = Gen(isa, rng)
    shape = shape or rng.choice(["fib", "layers", "fib_gpr"])
    L = [".L1:"]
    if shape == "fib":
        k = g.nvec
        for j in range(n):
            L.append(g.op2(j % k, (j - 1) % k, (j - 2) % k, which=0))
    elif shape == "fib_gpr":
        # addq a, b : b += a  -> b depends on a and b
        k = 6
        for j in range(n):
            L.append(g.gadd(j % k, (j - 1) % k))
    elif shape == "layers2":
        # width 2: about 2^(n/2) paths per root — many, yet enumerable
        w = 2
        layers = max(2, n // w)
        for l in range(layers):
            for i in range(w):
                d = (l % 2) * w + i
                a = ((l + 1) % 2) * w + i
                b = ((l + 1) % 2) * w + (i + 1) % w
                L.append(g.op2(d, a, b, which=0))
    else:  # layered DAG: width w, every node of a layer reads two nodes of the previous layer
        w = rng.randint(2, 4)
        layers = max(2, n // w)
        for l in range(layers):
            for i in range(w):
                d = (l % 2) * w + i
                a = ((l + 1) % 2) * w + i
                b = ((l + 1) % 2) * w + (i + 1) % w
                L.append(g.op2(d, a, b, which=0))
    L.extend(g.loop_end(7))
    return shape, "\n".join(L) + "\n"


def windowed_cases(rng, n, arm_models=("tx2", "n1", "a64fx", "tsv110")):
    """Real compiler output above the 50-line threshold without padding: `--lines a-b` windows of the
    long shipped files (whole functions with directives, labels and calls)."""
    tf = os.path.join(env.REPO, "tests", "test_files")
    files = [("triad_x86_unmarked.s", "x86"), ("triad_x86_iaca.s", "x86"), ("triad_arm_iaca.s", "aarch64")]
    out = []
    for j in range(n):
        base, isa = files[j % len(files)]
        p = os.path.join(tf, base)
        if not os.path.exists(p):
            continue
        text = open(p).read()
        nlines = text.count("\n")
        width = rng.choice([70, 90, 120, 160])
        a = rng.randint(1, max(2, nlines - width))
        out.append({"name": "tests/test_files/%s[%d-%d]" % (base, a, a + width), "isa": isa,
                    "arch": "zen1" if isa == "x86" else arm_models[j % len(arm_models)],
                    "text": text, "lines": "%d-%d" % (a, a + width)})
    return out


def deep_variant(text, isa, k, drop_tail):
    """The same kernel deep inside a big file: k comment lines in front, selected with --lines, so that
    every line number is above 1000 (offset = max(1000, max line) then equals the last line number).
    With drop_tail the closing compare-and-branch is removed, so the last selected line can lie on an
    LCD."""
    lines = [l for l in text.split("\n") if l.strip()]
    if drop_tail:
        lines = lines[:-2]
    c = "# filler" if isa == "x86" else "// filler"
    body = "\n".join([c] * k + lines) + "\n"
    return body, "%d-%d" % (k + 1, k + len(lines))
