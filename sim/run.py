#!/venv/bin/python
"""Entry point:  run.py check <C16|C17|C18|C19> [--tier quick|thorough]
                 run.py replay <file>
                 run.py digest <property> <specs.json>      (determinism self-test helper)
Exit 0: property held on everything explored.  Exit 1: VIOLATION line(s) printed.
Exit 2: harness problem (never a verdict)."""
import argparse
import importlib
import json
import os
import subprocess
import sys
import time as _t

HERE = os.path.dirname(os.path.abspath(__file__))
sys.path.insert(0, os.path.dirname(HERE))

if os.environ.get("PYTHONHASHSEED") is None:
    # a fixed hash seed for the harness process itself; the code under test is additionally run
    # under other hash seeds by the repeat / determinism sub-checks
    os.environ["PYTHONHASHSEED"] = "0"
    os.execv(sys.executable, [sys.executable] + sys.argv)

from sim import env, batch, procs  # noqa: E402

_real_time = procs.real_time
MODULES = {"C16": "sim.c16", "C17": "sim.c17", "C18": "sim.c18", "C19": "sim.c19"}


def get_mod(prop):
    return importlib.import_module(MODULES[prop])


def cmd_check(prop, tier):
    seed = batch.seed_from_env()
    mod = get_mod(prop)
    t0 = _real_time()
    print("VERIF_SEED=%d property=%s tier=%s repo=%s" % (seed, prop, tier, env.REPO), flush=True)
    fingerprint = env.repo_fingerprint()
    try:
        rc = mod.check(tier, seed, fingerprint, t0)
    except batch_harness_errors() as e:
        import traceback
        traceback.print_exc()
        print("HARNESS-ERROR property=%s %s: %s" % (prop, type(e).__name__, e), flush=True)
        rc = batch.EXIT_HARNESS
    sys.stdout.flush()
    return rc


def batch_harness_errors():
    return (Exception,)


def cmd_replay(path):
    doc = json.load(open(path))
    prop = doc["property"]
    mod = get_mod(prop)
    vs, digest = mod.replay_file(doc)
    same = [v for v in vs if v["class"] == doc["class"] and v.get("site") == doc.get("site")]
    print("replay property=%s class=%s site=%s choices=%d" % (prop, doc["class"], doc.get("site"), len(doc.get("choices", []))))
    print("event-log digest %s (%s recorded %s)" % (digest, "matches" if digest == doc.get("event_log_sha1") else "differs from", doc.get("event_log_sha1")))
    if same:
        print("reproduced: %s" % same[0]["detail"])
        print("VIOLATION property=%s replay=%s" % (prop, os.path.abspath(path)))
        return batch.EXIT_VIOLATION
    if vs:
        print("a different violation occurred: %s/%s %s" % (vs[0]["class"], vs[0].get("site"), vs[0]["detail"]))
        print("VIOLATION property=%s replay=%s" % (prop, os.path.abspath(path)))
        return batch.EXIT_VIOLATION
    print("not reproduced on this tree")
    return batch.EXIT_OK


def cmd_digest(prop, path):
    mod = get_mod(prop)
    items = json.load(open(path))
    out = mod.digests_for(items)
    print("DIGESTS " + json.dumps(out))
    return 0


def main():
    ap = argparse.ArgumentParser()
    sub = ap.add_subparsers(dest="cmd")
    c = sub.add_parser("check")
    c.add_argument("prop")
    c.add_argument("--tier", default=None)
    r = sub.add_parser("replay")
    r.add_argument("path")
    d = sub.add_parser("digest")
    d.add_argument("prop")
    d.add_argument("path")
    a = ap.parse_args()
    if a.cmd == "check":
        tier = os.environ.get("VERIF_TIER") or a.tier or "quick"
        if tier not in ("quick", "thorough"):
            tier = "quick"
        sys.exit(cmd_check(a.prop, tier))
    if a.cmd == "replay":
        sys.exit(cmd_replay(a.path))
    if a.cmd == "digest":
        sys.exit(cmd_digest(a.prop, a.path))
    ap.print_help()
    sys.exit(2)


if __name__ == "__main__":
    main()
