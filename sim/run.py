#!/venv/bin/python
"""Entry point:  run.py check <C16|C17|C18|C19> [--tier quick|thorough]
                 run.py replay <file>
                 run.py digest <property> <specs.json>      (determinism self-test helper)
Exit 0: property held on everything explored.  Exit 1: VIOLATION line(s) printed.
Exit 2: harness problem (never a verdict)."""
import argparse
import importlib
import json
import os
import subprocess
import sys
import time as _t

HERE = os.path.dirname(os.path.abspath(__file__))
sys.path.insert(0, os.path.dirname(HERE))

if os.environ.get("PYTHONHASHSEED") is None:
    # a fixed hash seed for the harness process itself; the code under test is additionally run
    # under other hash seeds by the repeat / determinism sub-checks
    os.environ["PYTHONHASHSEED"] = "0"
    os.execv(sys.executable, [sys.executable] + sys.argv)

from sim import env, batch, procs  # noqa: E402

_real_time = procs.real_time
MODULES = {"C16": "sim.c16", "C17": "sim.c17", "C18": "sim.c18", "C19": "sim.c19"}


def get_mod(prop):
    return importlib.import_module(MODULES[prop])


def cmd_check(prop, tier):
    seed = batch.seed_from_env()
    mod = get_mod(prop)
    t0 = _real_time()
    print("VERIF_SEED=%d property=%s tier=%s repo=%s" % (seed, prop, tier, env.REPO), flush=True)
    fingerprint = env.repo_fingerprint()
    env.cleanup_stale()
    try:
        rc = mod.check(tier, seed, fingerprint, t0)
    except batch_harness_errors() as e:
        import traceback
        traceback.print_exc()
        print("HARNESS-ERROR property=%s %s: %s" % (prop, type(e).__name__, e), flush=True)
        rc = batch.EXIT_HARNESS
    sys.stdout.flush()
    return rc


def batch_harness_errors():
    return (Exception,)


def cmd_replay(path):
    doc = json.load(open(path))
    prop = doc["property"]
    mod = get_mod(prop)
    vs, digest = mod.replay_file(doc)
    same = [v for v in vs if v["class"] == doc["class"] and v.get("site") == doc.get("site")]
    print("replay property=%s class=%s site=%s choices=%d" % (prop, doc["class"], doc.get("site"), len(doc.get("choices", []))))
    print("event-log digest %s (%s recorded %s)" % (digest, "matches" if digest == doc.get("event_log_sha1") else "differs from", doc.get("event_log_sha1")))
    if same:
        print("reproduced: %s" % same[0]["detail"])
        print("VIOLATION property=%s replay=%s" % (prop, os.path.abspath(path)))
        return batch.EXIT_VIOLATION
    if vs:
        print("a different violation occurred: %s/%s %s" % (vs[0]["class"], vs[0].get("site"), vs[0]["detail"]))
        print("VIOLATION property=%s replay=%s" % (prop, os.path.abspath(path)))
        return batch.EXIT_VIOLATION
    print("not reproduced on this tree")
    return batch.EXIT_OK


def cmd_digest(prop, path):
    mod = get_mod(prop)
    items = json.load(open(path))
    out = mod.digests_for(items)
    print("DIGESTS " + json.dumps(out))
    return 0


def cmd_selftest(only, with_baseline, tier):
    """Sensitivity: apply each /verif/mutants/*.patch to a throw-away copy of the repo (outside /repo
    and /verif), run the quick check of its property against that copy, expect exit 1."""
    import glob
    import shutil
    mdir = os.path.join(env.VERIF, "mutants")
    patches = sorted(glob.glob(os.path.join(mdir, "*.patch")))
    if only:
        patches = [p for p in patches if any(o in os.path.basename(p) for o in only)]
    results = {}
    rc_all = 0
    for p in patches:
        name = os.path.basename(p)[:-6]
        prop = name.split("-")[0]
        scratch = env.make_scratch("osaca-verif-mut-")
        try:
            copy = os.path.join(scratch, "repo")
            subprocess.run(["rsync", "-a", "--exclude", ".git", "--exclude", "*.pickle", "--exclude", "__pycache__",
                            env.REPO + "/", copy + "/"], check=True)
            ap = subprocess.run(["patch", "-p1", "-s", "-i", p], cwd=copy, capture_output=True, text=True)
            if ap.returncode != 0:
                results[name] = {"status": "patch-failed", "detail": ap.stdout[-300:] + ap.stderr[-300:]}
                print("%-55s PATCH FAILED" % name, flush=True)
                rc_all = 2
                continue
            envv = dict(os.environ, VERIF_REPO=copy, VERIF_OUT_DIR=os.path.join(scratch, "out"), VERIF_SHRINK_BUDGET="40")
            t0 = _real_time()
            base = None
            if with_baseline:
                b = subprocess.run([sys.executable, "-m", "pytest", "-q", "-p", "no:cacheprovider", "--timeout=900",
                                    "--continue-on-collection-errors", "--junitxml=" + os.path.join(scratch, "j.xml")],
                                   cwd=copy, capture_output=True, text=True, env=dict(os.environ, PYTHONPATH=copy))
                bb = subprocess.run([sys.executable, os.path.join(env.VERIF, "tools_baseline.py"), os.path.join(scratch, "j.xml")],
                                    capture_output=True, text=True)
                base = bb.stdout.split("\n")[0]
            c = subprocess.run([sys.executable, os.path.join(HERE, "run.py"), "check", prop, "--tier", tier],
                               capture_output=True, text=True, env=envv, timeout=3000)
            classes = sorted({l.split("class=")[1].split(":")[0] for l in c.stdout.split("\n") if l.startswith("violation class=")})
            status = "caught" if c.returncode == 1 and "VIOLATION property=%s" % prop in c.stdout else \
                ("harness-error" if c.returncode == 2 else "MISSED")
            results[name] = {"status": status, "rc": c.returncode, "classes": classes, "wall_s": round(_real_time() - t0, 1),
                             "baseline": base}
            print("%-55s %-8s rc=%d %s %.0fs %s" % (name, status, c.returncode, classes, _real_time() - t0, base or ""), flush=True)
            if status != "caught":
                rc_all = max(rc_all, 1)
                print(c.stdout[-1500:])
        finally:
            env.remove_scratch(scratch)
    out = os.path.join(os.environ.get("VERIF_OUT_DIR") or env.VERIF, "mutants", "RESULTS.json")
    os.makedirs(os.path.dirname(out), exist_ok=True)
    prev = {}
    if os.path.exists(out) and only:
        prev = json.load(open(out))
    prev.update(results)
    json.dump(prev, open(out, "w"), indent=1, sort_keys=True)
    return rc_all


def main():
    ap = argparse.ArgumentParser()
    sub = ap.add_subparsers(dest="cmd")
    c = sub.add_parser("check")
    c.add_argument("prop")
    c.add_argument("--tier", default=None)
    r = sub.add_parser("replay")
    r.add_argument("path")
    d = sub.add_parser("digest")
    d.add_argument("prop")
    d.add_argument("path")
    st = sub.add_parser("selftest")
    st.add_argument("--only", action="append")
    st.add_argument("--with-baseline", action="store_true")
    st.add_argument("--tier", default="quick")
    a = ap.parse_args()
    if a.cmd == "selftest":
        sys.exit(cmd_selftest(a.only, a.with_baseline, a.tier))
    if a.cmd == "check":
        tier = os.environ.get("VERIF_TIER") or a.tier or "quick"
        if tier not in ("quick", "thorough"):
            tier = "quick"
        sys.exit(cmd_check(a.prop, tier))
    if a.cmd == "replay":
        sys.exit(cmd_replay(a.path))
    if a.cmd == "digest":
        sys.exit(cmd_digest(a.prop, a.path))
    ap.print_help()
    sys.exit(2)


if __name__ == "__main__":
    main()
