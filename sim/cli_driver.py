"""Five-line driver around the real CLI entry point: redirects the data directories to the
scratch copy built from the working tree and pins cpu_count / the threshold (the seams named
by C16).  Everything else is the real osaca.osaca.main with the real multiprocessing module."""
import multiprocessing
import os
import sys

repo = os.environ.get("VERIF_REPO", "/repo")
sys.path.insert(0, repo)
ncpu = int(os.environ.get("VERIF_NCPU", "0"))
if ncpu:
    multiprocessing.cpu_count = lambda: ncpu
import osaca.utils as u  # noqa: E402

root = os.environ["VERIF_SCRATCH_ROOT"]
u.DATA_DIRS = [os.path.join(root, "data")]
u.CACHE_DIR = os.path.join(root, "home", ".osaca", "cache")
import osaca.semantics.kernel_dg as kd  # noqa: E402

if ncpu and hasattr(kd, "cpu_count"):
    kd.cpu_count = lambda: ncpu
if os.environ.get("VERIF_THRESHOLD"):
    kd.KernelDG.INSTRUCTION_THRESHOLD = int(os.environ["VERIF_THRESHOLD"])
from osaca.osaca import main  # noqa: E402

sys.argv = ["osaca"] + sys.argv[1:]
main()
