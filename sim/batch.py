"""Batch infrastructure shared by the four checks: process pool with watchdog, aggregation,
known findings, violation files, evidence files."""
import collections
import faulthandler
import json
import multiprocessing as mp
import os
import sys
import traceback
from concurrent.futures import ProcessPoolExecutor, as_completed
from concurrent.futures.process import BrokenProcessPool

from . import env, procs

NPROC = int(os.environ.get("VERIF_NPROC", "16"))
EXIT_OK, EXIT_VIOLATION, EXIT_HARNESS = 0, 1, 2


def seed_from_env():
    try:
        return int(os.environ.get("VERIF_SEED", "0"))
    except ValueError:
        return 0


class Agg:
    """Mergeable result of a job / batch."""

    def __init__(self):
        self.runs = 0
        self.inconclusive = 0
        self.stats = collections.Counter()    # fault kinds fired, events
        self.probes = collections.Counter()   # "rare condition was hit"
        self.digests = set()                  # schedule digests (distinct interleavings)
        self.states = set()                   # property-specific abstract states
        self.nontrivial = set()               # distinct non-trivial cases
        self.violations = []
        self.samples = []
        self.sim_seconds = 0.0
        self.harness_errors = []
        self.notes = collections.Counter()

    def to_dict(self):
        return {
            "runs": self.runs, "inconclusive": self.inconclusive, "stats": dict(self.stats),
            "probes": dict(self.probes), "digests": sorted(self.digests),
            "states": sorted(self.states), "nontrivial": sorted(self.nontrivial),
            "violations": self.violations, "samples": self.samples[:3],
            "sim_seconds": self.sim_seconds, "harness_errors": self.harness_errors[:5],
            "notes": dict(self.notes),
        }

    def merge_dict(self, d):
        self.runs += d["runs"]
        self.inconclusive += d["inconclusive"]
        self.stats.update(d["stats"])
        self.probes.update(d["probes"])
        self.digests.update(d["digests"])
        self.states.update(d["states"])
        self.nontrivial.update(d["nontrivial"])
        self.violations.extend(d["violations"])
        if len(self.samples) < 12:
            self.samples.extend(d["samples"][: 12 - len(self.samples)])
        self.sim_seconds += d["sim_seconds"]
        self.harness_errors.extend(d["harness_errors"])
        self.notes.update(d["notes"])


_worker_state = {}


def _worker_init(init_fn, init_args):
    sys.setrecursionlimit(10000)
    try:
        init_fn(*init_args)
    except BaseException:
        traceback.print_exc()
        raise


def _worker_run(fn, job, wall):
    faulthandler.dump_traceback_later(wall, exit=True)
    try:
        return ("ok", fn(job))
    except BaseException as e:
        return ("err", "%s: %s\n%s" % (type(e).__name__, e, traceback.format_exc()))
    finally:
        faulthandler.cancel_dump_traceback_later()


def run_pool(jobs, fn, init_fn, init_args=(), wall_per_job=600, nproc=None, progress=None):
    """Run fn(job) for every job in forked workers.  Returns (results, harness_errors)."""
    nproc = nproc or NPROC
    results, errors = [], []
    if not jobs:
        return results, errors
    ctx = mp.get_context("fork")
    ex = ProcessPoolExecutor(max_workers=min(nproc, len(jobs)), mp_context=ctx,
                             initializer=_worker_init, initargs=(init_fn, init_args))
    try:
        futs = {ex.submit(_worker_run, fn, j, wall_per_job): j for j in jobs}
        done = 0
        for f in as_completed(futs):
            done += 1
            try:
                st, val = f.result()
            except BrokenProcessPool as e:
                errors.append("worker died (watchdog or crash) while running %r: %s" % (futs[f], e))
                break
            except BaseException as e:
                errors.append("job %r failed: %s" % (futs[f], e))
                continue
            if st == "ok":
                results.append(val)
            else:
                errors.append("job %r raised: %s" % (_short(futs[f]), val))
            if progress and done % progress == 0:
                print("  .. %d/%d jobs" % (done, len(jobs)), flush=True)
    finally:
        ex.shutdown(wait=False, cancel_futures=True)
    return results, errors


def _short(j):
    s = repr(j)
    return s if len(s) < 200 else s[:200] + "..."


# ------------------------------------------------------------------ known findings
def load_known():
    p = os.path.join(env.VERIF, "known_findings.json")
    if not os.path.exists(p):
        return {"findings": [], "fixed": []}
    return json.load(open(p))


def match_known(v, known):
    for f in known.get("findings", []):
        if f.get("property") != v.get("property") or f.get("class") != v.get("class"):
            continue
        if f.get("site") != v.get("site"):
            continue
        m = f.get("match", {})
        facts = v.get("facts", {})
        if all(facts.get(k) == val for k, val in m.items()):
            return f
    return None


# ------------------------------------------------------------------ files
def out_dir():
    """Where evidence and replay files go: /verif normally; a scratch dir during `selftest`."""
    return os.environ.get("VERIF_OUT_DIR") or env.VERIF


def write_replay(v, fingerprint):
    d = os.path.join(out_dir(), "replays", v["property"])
    os.makedirs(d, exist_ok=True)
    name = "%s-%s-%s.json" % (v["class"], v.get("verif_seed", 0), v.get("run_index", 0))
    path = os.path.join(d, name)
    doc = dict(v)
    doc["format"] = 1
    doc["found_on"] = fingerprint
    with open(path, "w") as f:
        json.dump(doc, f, indent=1, default=str)
    return path


def write_evidence(prop, tier, seed, agg, wall_s, rule, extra=None, assumptions=(), violations=0,
                   known=()):
    d = os.path.join(out_dir(), "evidence")
    os.makedirs(d, exist_ok=True)
    cov = {
        "evaluations": agg.runs,
        "distinct_nontrivial": len(agg.nontrivial),
        "rule": rule,
        "samples": agg.samples[:6] or ["(no run)"],
        "simulated_runs": agg.runs,
        "conclusive_runs": agg.runs - agg.inconclusive,
        "runs_per_hour": int(agg.runs / wall_s * 3600) if wall_s > 0 else 0,
        "seeds_per_hour": int(agg.runs / wall_s * 3600) if wall_s > 0 else 0,
        "simulated_seconds": round(agg.sim_seconds, 3),
        "simulated_seconds_note": "sum over runs of the simulated clock at the end of the run; 0 for properties whose "
                                  "code reads no clock (C17, C18: only the order of events matters there)",
        "fault_kinds_fired": dict(sorted(agg.stats.items())),
        "probes_hit": dict(sorted(agg.probes.items())),
        "distinct_interleavings": len(agg.digests),
        "distinct_interleavings_measure": "distinct sha1 digests of the sequence of context-switch, "
                                          "kill, fault, apply and exit events of a run",
        "distinct_abstract_states": len(agg.states),
        "notes": dict(sorted(agg.notes.items()), runs_stopped_by_step_cap_counted_inconclusive=agg.inconclusive),
        "known_findings_observed": list(known),
    }
    if extra:
        cov.update(extra)
    doc = {
        "property_id": prop, "tier": tier, "seed": seed, "level": "exploration",
        "coverage": cov, "assumptions": list(assumptions), "wall_s": round(wall_s, 2),
        "violations": violations,
    }
    path = os.path.join(d, prop + ".json")
    tmp = path + ".tmp"
    with open(tmp, "w") as f:
        json.dump(doc, f, indent=1, default=str)
    os.replace(tmp, path)
    return path


def real_now():
    return procs.real_time()


def os_level_failure(rc, err):
    """A real subprocess that did not complete for reasons that say nothing about the code under test."""
    if rc is None or rc in (-9, -15, 137, 143):
        return True
    e = err or ""
    return any(k in e for k in ("BlockingIOError", "MemoryError", "Cannot allocate memory", "Resource temporarily unavailable",
                                "Too many open files", "No space left on device")) or "Traceback" not in e


def run_process_group(cmd, timeout, env_=None, cwd=None):
    """Run a real subprocess in its own session and ALWAYS kill the whole process group afterwards,
    so that worker processes a (possibly broken) tree leaves behind cannot outlive the check.
    Returns (returncode or None on timeout, stdout, stderr)."""
    import signal
    import subprocess
    p = subprocess.Popen(cmd, stdout=subprocess.PIPE, stderr=subprocess.PIPE, text=True, env=env_, cwd=cwd,
                         start_new_session=True)
    try:
        out, err = p.communicate(timeout=timeout)
        rc = p.returncode
    except subprocess.TimeoutExpired:
        rc = None
        out, err = "", "timeout after %s s" % timeout
    finally:
        try:
            os.killpg(p.pid, signal.SIGKILL)
        except (ProcessLookupError, PermissionError):
            pass
        try:
            o2, e2 = p.communicate(timeout=10)
            if rc is None:
                out, err = o2 or out, (e2 or "") + err
        except Exception:
            pass
    return rc, out, err
