"""Execution and oracles for the two LCD-search properties (C16 fault-free, C19 timeout)."""
import hashlib
import json
import random

from . import core, procs, lcd, env
from .core import Chooser, derive_seed

REF_CAP = 60000          # slices (x50 line events) allowed for the sequential reference
RUN_CAP = 200000         # yields per simulated run
DEADLINE_SLACK = 1.0     # C19: search must return within timeout + 1.0 simulated seconds
GENEROUS = 1.0e6

CTX = {"root": None, "cases": {}, "refs": {}}


def worker_init(root):
    CTX["root"] = root
    lcd.load_osaca(root)


def case_id(cs):
    h = hashlib.sha1(json.dumps([cs["arch"], cs["text"], cs.get("flag_deps", False),
                                 cs.get("fixed", False), cs.get("lines")]).encode()).hexdigest()[:12]
    return h


def get_case(cs):
    cid = case_id(cs)
    c = CTX["cases"].get(cid)
    if c is None:
        c = lcd.Case(cs["name"], cs["arch"], cs["text"], cs.get("flag_deps", False),
                     cs.get("fixed", False), cs.get("lines"))
        c.prepare()
        c.cid = cid
        import os
        kd_ = os.path.join(CTX["root"], "kernels")
        os.makedirs(kd_, exist_ok=True)
        c.path = os.path.join(kd_, cid + ".s")
        if not os.path.exists(c.path):
            tmp = c.path + ".%d.tmp" % os.getpid()
            with open(tmp, "w") as f:
                f.write(cs["text"])
            os.replace(tmp, c.path)
        c.ref_cap = cs.get("ref_cap", REF_CAP)
        CTX["cases"][cid] = c
    return c


def get_ref(case):
    """Sequential, untimed reference computed by the real sequential branch under a step cap,
    plus a run with the LCD search stubbed out (for the parts a timeout must not touch)."""
    r = CTX["refs"].get(case.cid)
    if r is not None:
        return r
    ref = {}
    res = lcd.run_analysis(case, 1, -1, Chooser(seed=0), threshold=10 ** 9,
                           max_steps=getattr(case, "ref_cap", REF_CAP), parent_cost=0.0, rtt=0.0, item_cost=0.0, fork_cost=0.0, syscall_cost=0.0)
    if res.harness:
        raise res.harness
    if res.out is not None and not res.aborted:
        ref["tractable"] = True
        ref.update({k: res.out[k] for k in ("lcd", "text", "warnings", "summary", "cp", "timed_out")})
        ref["lines"] = res.lines
        ref["lcdset"] = {(k, lat, deps) for k, lat, deps, root in res.out["lcd"]}
    else:
        ref["tractable"] = False
        ref["lines"] = res.lines
        ref["error"] = repr(res.parent_exc) if res.parent_exc else None
    if ref["tractable"]:
        # the same reference through the CLI entry point (other "Analyzed file" line)
        rc = lcd.run_analysis(case, 1, -1, Chooser(seed=0), threshold=10 ** 9,
                              max_steps=getattr(case, "ref_cap", REF_CAP), parent_cost=0.0, via_cli=True)
        if rc.out is not None and not rc.aborted:
            ref["text_cli"] = rc.out["text"]
            if rc.out["lcd"] != ref["lcd"]:
                raise core.HarnessError("CLI-path reference differs from API-path reference for %s" % case.name)
    # stub run
    sres = run_stub(case)
    ref["stub"] = sres
    CTX["refs"][case.cid] = ref
    return ref


def run_stub(case):
    import osaca.semantics.kernel_dg as kd
    K = kd.KernelDG
    saved = K.check_for_loopcarried_dep
    K.check_for_loopcarried_dep = lambda self, *a, **kw: {}
    try:
        res = lcd.run_analysis(case, 1, -1, Chooser(seed=0), threshold=10 ** 9, max_steps=REF_CAP,
                               parent_cost=0.0)
    finally:
        K.check_for_loopcarried_dep = saved
    if res.out is None:
        return {"error": repr(res.parent_exc)}
    return {"summary": res.out["summary"], "cp": res.out["cp"], "rows": non_lcd_rows(res.out["text"])}


def non_lcd_rows(text):
    """Cells of the combined view that do not belong to the LCD analysis: for each kernel row the
    port-pressure part, the CP cell and the code; plus the header block.  Returns None when the
    layout is not the one we know (then the text comparison is skipped, never guessed)."""
    if "Combined Analysis Report" not in text:
        return None
    head, rest = text.split("Combined Analysis Report", 1)
    head = "\n".join(l for l in head.split("\n") if not l.startswith("Analyzed file:"))
    rows = []
    for l in rest.split("\n"):
        if "||" not in l:
            continue
        left, right = l.split("||", 1)
        cells = right.split("|")
        if len(cells) < 3:
            return None
        rows.append((left, cells[0], "|".join(cells[2:])))
    if not rows:
        return None
    return [head] + rows


# ------------------------------------------------------------------ one run
def execute(spec, chooser):
    """Run one simulated analysis described by `spec` (JSON-able) under `chooser`.
    Returns (res, facts) where facts is a JSON-able description used by oracles/evidence."""
    case = get_case(spec["case"])
    timeout = spec["timeout"]
    slack = DEADLINE_SLACK if spec.get("check_deadline", True) else None
    res = lcd.run_analysis(
        case, spec["workers"], timeout, chooser, threshold=spec.get("threshold"),
        max_steps=spec.get("max_steps", RUN_CAP), deadline_slack=slack,
        speeds=spec.get("speeds"), start_delays=spec.get("delays"),
        parent_cost=spec.get("parent_cost"), rtt=spec.get("rtt"), via_cli=spec.get("via_cli", False),
        item_cost=spec.get("item_cost"), fork_cost=spec.get("fork_cost"), syscall_cost=spec.get("syscall_cost"))
    return res


def kill_facts(res):
    """Per killed worker: where the SIGKILL found it."""
    out = []
    for e in res.sim.log:
        if len(e) > 2 and e[2] == "kill":
            out.append({"victim": e[3], "where": e[5]})
    return out


def classify_kills(res):
    """cut = killed while its search/hand-over was unfinished; ambiguous = possibly after its
    last delivery.  Uses only simulator-side knowledge (park point, acks, lines since ack)."""
    cut, amb = 0, 0
    acks = {}
    lines_at_ack = {}
    for e in res.sim.log:
        if len(e) > 3 and e[2] == "y" and e[3].startswith("mgr-ack"):
            acks[e[1]] = acks.get(e[1], 0) + 1
    for p in res.world.procs:
        t = p.task
        if t is None or t.exit_status != "killed":
            continue
        where = t.attrs.get("killed_at", "")
        n_ack = acks.get(t.name, 0)
        if where.startswith("mgr-ack"):
            amb += 1
        elif where == "" and n_ack >= 1 and t.lines - t.attrs.get("lines_at_ack", 0) <= 10:
            amb += 1
        else:
            cut += 1
    return cut, amb


def base_facts(spec, res):
    case = get_case(spec["case"])
    klen = case.klen
    thr = spec.get("threshold")
    thr_eff = thr if thr is not None else 50
    started = [p for p in res.world.procs if p.started]
    killed = [p for p in started if p.task.exit_status == "killed"]
    f = {
        "klen": klen,
        "branch": "parallel" if klen >= thr_eff else "sequential",
        "klen_lt_threshold": klen < thr_eff,
        "workers": spec["workers"], "timeout": spec["timeout"],
        "started": len(started), "killed": len(killed),
        "timed_out": bool(res.out["timed_out"]) if res.out else None,
        "now": round(res.sim.now, 6),
        "steps": res.sim.steps,
    }
    return f


def sections_partition(res, klen):
    """Invariant on the arguments the real code passed to Process: every root exactly once."""
    seen = []
    for p in res.world.procs:
        args = p._args
        sec = None
        for a in args:
            if isinstance(a, list) and (not a or hasattr(a[0], "line_number")):
                sec = a
                break
        if sec is None:
            return None
        seen.extend(x.line_number for x in sec)
    return seen
