"""C19 — LCD timeout yields sound partial results and leaves no workers behind.

Workload: the real KernelDG constructor + Frontend under a simulated clock; workers are
pre-empted inside the path enumeration; the real kill loop delivers simulated SIGKILLs.
"""
import json
import random

from . import core, procs, lcd, lcdcheck, corpus, env, batch
from .core import Chooser, derive_seed
from .lcdcheck import GENEROUS

PROP = "C19"
WORKERS = [1, 2, 3, 5, 16, "klen+3"]
TIMEOUTS = [0, 0.1, 1, 2, 10, GENEROUS, -1]


# ------------------------------------------------------------------ oracle
def judge(spec, res, ref):
    """Returns ("inconclusive", why) | ("ok", facts) | ("violation", [v...], facts)."""
    if res.harness is not None:
        raise res.harness
    facts = lcdcheck.base_facts(spec, res)
    site = facts["branch"] + "-branch"
    timeout = spec["timeout"]
    V = []

    def viol(cls, detail, site_=None):
        V.append({"property": PROP, "class": cls, "site": site_ or site, "detail": detail,
                  "facts": facts})

    if res.violation is not None:
        viol(res.violation.cls, res.violation.detail)
        return "violation", V, facts
    if res.aborted in ("max_steps", "max_now"):
        if timeout is not None and timeout >= 0:
            # a run that hits the step cap with a deadline set while still inside the search has
            # already been caught by the invariant; anything else is simply too long for us
            pass
        return "inconclusive", res.aborted, facts
    if res.deadlock:
        viol("analysis_hung", "no task runnable while the analysis had not returned: %r"
             % (res.sim.log[-1],))
        return "violation", V, facts
    if res.parent_exc is not None:
        viol("analysis_failed", "analysis raised %r" % (res.parent_exc,))
        return "violation", V, facts
    out = res.out
    cap = res.captured
    tractable = ref.get("tractable", False)
    got = out["lcd"]
    gotset = {(k, lat, deps) for k, lat, deps, root in got}
    facts["n_lcd"] = len(got)
    facts["tractable"] = tractable

    # 5. no worker left behind
    left = [pid for pid, dead, joined in cap.get("procs_at_exit", []) if not dead]
    facts["unjoined"] = sum(1 for pid, dead, joined in cap.get("procs_at_exit", []) if not joined)
    if left:
        viol("worker_left_behind", "worker processes %r still running when the search returned" % (left,))
    if any(not s for s in cap.get("mgr_shut", [])):
        viol("worker_left_behind", "manager process still running when the search returned")

    # 3. soundness of every reported dependency
    dgs = cap.get("dgs", [])
    if dgs and out["kernel"]:
        dg2 = dgs[-1]
        offset = max(1000, max(i.line_number for i in out["kernel"]))
        for k, lat, deps, root in got:
            ok, info = lcd.validate_chain(dg2, offset, list(deps))
            if not ok:
                viol("unsound_partial_result", "reported LCD %s is not a cycle of the dependency graph: %s" % (k, info))
                break
            if info != lat:
                viol("unsound_partial_result", "reported LCD %s has latency %r, its edges sum to %r" % (k, lat, info))
                break
    if tractable:
        extra = gotset - ref["lcdset"]
        if extra:
            viol("unsound_partial_result", "reported LCDs not in the untimed result: %r" % (sorted(extra)[:2],))
    complete = tractable and gotset == ref["lcdset"]
    facts["complete"] = complete if tractable else None

    # 2./6. warning iff cut short, completeness when not cut
    flag = bool(out["timed_out"])
    warn_text = "LCD analysis timed out" in out["text"]
    warn_dict = "LCDWarning" in out["warnings"]
    if not (flag == warn_text == warn_dict):
        viol("warning_inconsistent", "timed_out=%r, text warning=%r, dict warning=%r" % (flag, warn_text, warn_dict))
    cut, amb = classify_kills(res)
    facts["cut_kills"], facts["ambiguous_kills"] = cut, amb
    killed = facts["killed"]
    elapsed = cap.get("search_exit", 0.0) - cap.get("search_enter", 0.0)
    facts["elapsed"] = round(elapsed, 6)
    if timeout == -1:
        if flag:
            viol("false_warning", "time-out warning with timeout -1")
        if tractable and not complete:
            viol("incomplete_without_timeout", "timeout -1 but %d of %d LCDs reported" % (len(gotset), len(ref["lcdset"])))
        if killed:
            viol("incomplete_without_timeout", "workers were killed although timeout is -1")
    else:
        if flag:
            if facts["branch"] == "parallel" and killed == 0 and (complete or not tractable):
                viol("false_warning", "time-out warning although no worker was cut short "
                     "(all %d workers had finished; result %s)" % (facts["started"], "complete" if complete else "?"))
            elif facts["branch"] == "sequential" and elapsed <= timeout:
                viol("false_warning", "time-out warning although the search returned after %.3f s <= timeout %s" % (elapsed, timeout))
        else:
            if tractable and not complete:
                if killed:
                    viol("missing_warning", "%d workers killed, %d of %d LCDs reported, no warning"
                         % (killed, len(gotset), len(ref["lcdset"])))
                else:
                    viol("incomplete_without_timeout", "search not cut short but %d of %d LCDs reported"
                         % (len(gotset), len(ref["lcdset"])))
            elif not tractable and cut > 0:
                viol("missing_warning", "%d workers killed in mid-search, no warning" % cut)

    # 4. throughput / critical path / non-LCD cells untouched
    stub = ref.get("stub", {})
    if "summary" in stub:
        if out["summary"]["PortPressure"] != stub["summary"]["PortPressure"]:
            viol("throughput_or_cp_changed", "port pressure totals %r != %r" % (out["summary"]["PortPressure"], stub["summary"]["PortPressure"]))
        if out["summary"]["CriticalPath"] != stub["summary"]["CriticalPath"] or out["cp"] != stub["cp"]:
            viol("throughput_or_cp_changed", "critical path %r != %r" % (out["cp"], stub["cp"]))
        rows = lcdcheck.non_lcd_rows(out["text"])
        if rows is not None and stub.get("rows") is not None and spec.get("via_cli"):
            # the CLI path may add header warnings (kernel length, default arch) the API-path stub run has not
            rows, stub = [None] + rows[1:], dict(stub, rows=[None] + stub["rows"][1:])
        if rows is not None and stub.get("rows") is not None and rows != stub["rows"]:
            bad = [i for i, (a, b) in enumerate(zip(rows, stub["rows"])) if a != b][:1]
            viol("throughput_or_cp_changed", "non-LCD cells of the report differ (row %r)" % (bad,))
    return ("violation", V, facts) if V else ("ok", None, facts)


def classify_kills(res):
    cut = amb = 0
    for p in res.world.procs:
        t = p.task
        if t is None or t.exit_status != "killed":
            continue
        where = t.attrs.get("killed_at", "")
        n_ack = t.attrs.get("acks", 0)
        if where.startswith("mgr-ack"):
            amb += 1
        elif where == "" and n_ack >= 1 and t.lines - t.attrs.get("lines_at_ack", 0) <= 10:
            amb += 1
        else:
            cut += 1
    return cut, amb


# ------------------------------------------------------------------ probes
def probes(agg, spec, res, facts):
    log = res.sim.log
    for e in log:
        if len(e) > 2 and e[2] == "kill":
            where = e[5] or "search"
            agg.stats["sigkill"] += 1
            agg.probes["kill@" + where.split(":")[0]] += 1
    for p in res.world.procs:
        t = p.task
        if t is not None and t.exit_status == "killed":
            if t.attrs.get("acks", 0) == 0:
                agg.probes["kill_before_first_delivery"] += 1
            else:
                agg.probes["kill_between_deliveries"] += 1
    if res.sim.stats.get("late_apply"):
        agg.probes["delivery_applied_after_sender_died"] += res.sim.stats["late_apply"]
    if res.sim.stats.get("dropped_at_shutdown"):
        agg.probes["request_dropped_at_manager_shutdown"] += 1
    if facts.get("branch") == "parallel" and facts.get("killed") == 0 and facts["timeout"] not in (-1,) \
            and facts.get("elapsed", 0) > facts["timeout"]:
        agg.probes["all_workers_finished_during_last_sleep(D1 window)"] += 1
    if facts.get("branch") == "sequential" and facts["timeout"] != -1 and facts.get("elapsed", 0) > facts["timeout"]:
        agg.probes["deadline_passed_in_sequential_branch"] += 1
    if facts.get("timeout") == 0 and any(p.task and p.task.exit_status == "ok" for p in res.world.procs):
        agg.probes["timeout0_with_finished_worker"] += 1
    if facts.get("timed_out"):
        agg.probes["timed_out_flag_set"] += 1
    if spec.get("via_cli"):
        agg.probes["run_through_cli_entry_point(osaca.osaca.run)"] += 1
    if facts.get("complete") is False:
        agg.probes["partial_result_returned"] += 1
    slow = sum(1 for p in res.world.procs if p.task and p.task.line_cost >= 3e-4)
    if slow:
        agg.stats["slow_or_stalled_worker"] += slow
    agg.stats["worker_started"] += facts.get("started", 0)


# ------------------------------------------------------------------ plan
def run_params(rng, klen, ref_lines, tractable):
    """Draw the parameters of one run (JSON-able)."""
    w = rng.choice(WORKERS)
    workers = klen + 3 if w == "klen+3" else w
    if rng.random() < 0.12:
        workers = rng.randint(1, max(4, min(2 * klen, 40)))  # any other count (the property says "any number")
    if klen >= 50:
        threshold = None if rng.random() < 0.8 else 10 ** 9
    else:
        threshold = 1 if rng.random() < 0.8 else None
    mode = rng.choice(["fixed", "straddle", "straddle", "table", "delivery"])
    speeds = list(procs.SPEEDS)
    extra = {}
    if mode == "fixed":
        timeout = rng.choice(TIMEOUTS)
    elif mode == "table":
        timeout = rng.choice([0, 1, 2])
    elif mode == "delivery":
        timeout = 1
    else:
        timeout = rng.choice([0.1, 0.3, 1, 2, 10])
        # scale per-line costs so that the total search work straddles the deadline
        eff = workers if (threshold == 1 or (threshold is None and klen >= 50)) else 1
        eff = max(1, min(eff, klen))
        # (intractable kernels: let the deadline strike after at most ~4e5 lines of search in total)
        work = max(ref_lines if tractable else min(ref_lines, 400000), 200)
        u = rng.choice([0.3, 0.7, 1.0, 1.0, 1.5, 3.0])
        mid = timeout * eff / work * u
        speeds = [mid * f for f in (0.1, 0.5, 1.0, 2.0, 8.0)]
    if mode == "delivery":
        # delivery-heavy cost model: searching is almost free, handing results over is what takes time,
        # so the deadline strikes while workers are in the middle of (possibly multi-part) deliveries
        speeds = [1e-7, 2e-7, 5e-7, 1e-6, 1e-6]
        extra = {"rtt": rng.choice([1e-3, 1e-2]), "item_cost": rng.choice([1e-5, 1e-4])}
        timeout = rng.choice([0.1, 0.3, 1, 2])
    if not tractable and timeout in (-1, GENEROUS):
        timeout = rng.choice([0, 1, 2])
    if timeout not in (-1, 0, GENEROUS) and rng.random() < 0.5:
        # arbitrary (non-round) deadlines and per-call costs: whether a deadline falls between two clock
        # reads of the parent depends on how these line up with the 0.2 s poll period
        timeout = round(timeout * rng.uniform(0.8, 1.25), 4)
        extra = dict(extra, syscall_cost=round(10 ** rng.uniform(-4.3, -2.8), 6))
    return dict({"workers": workers, "threshold": threshold, "timeout": timeout, "speeds": speeds,
                 "via_cli": rng.random() < 0.15}, **extra)


def make_spec(case_spec, params):
    s = {"property": PROP, "case": case_spec}
    s.update(params)
    return s


REAL_DRIVER = __import__("os").path.join(__import__("os").path.dirname(__import__("os").path.abspath(__file__)), "realproc_driver.py")


def realproc_job(job):
    """Stub fidelity: the real multiprocessing module, real SIGKILL, real clock.  Soundness of what
    is reported, warning when the search of an intractable kernel was cut, no child left."""
    import os
    import subprocess
    import sys
    import tempfile
    agg = batch.Agg()
    cs = job["case"]
    root = lcdcheck.CTX["root"]
    fd, path = tempfile.mkstemp(prefix="verif-k-", suffix=".s", dir=root)
    with os.fdopen(fd, "w") as f:
        f.write(cs["text"])
    try:
        envv = dict(os.environ, VERIF_SCRATCH_ROOT=root, VERIF_REPO=env.REPO, PYTHONHASHSEED="0")
        rc, out, err = batch.run_process_group(
            [sys.executable, REAL_DRIVER, cs["arch"], path, str(job["timeout"]), str(job["ncpu"]), str(job.get("threshold", "-"))],
            300, envv)
        line = next((l for l in out.split("\n") if l.startswith("RESULT ")), None)
        agg.notes["realproc_runs"] += 1
        if rc is None:
            # too slow to be useful as evidence (post-processing of a huge partial result is performance,
            # which this technique does not decide); neither a verdict nor a harness failure
            agg.notes["realproc_run_gave_no_answer_within_300s"] += 1
            return agg.to_dict()
        if (rc != 0 or line is None) and not batch.os_level_failure(rc, err):
            agg.violations.append({"property": PROP, "class": "analysis_failed", "site": "real-multiprocessing",
                                   "detail": "real run raised: %s" % (err[-400:],), "facts": {},
                                   "spec": {"property": PROP, "kind": "realproc", "case": cs, "timeout": job["timeout"],
                                            "ncpu": job["ncpu"], "threshold": job.get("threshold", "-")},
                                   "choices": [], "verif_seed": job["seed"], "run_index": 0, "subcheck": "real-process",
                                   "event_log_sha1": "", "event_log_tail": []})
            return agg.to_dict()
        if rc != 0 or line is None:
            # OS-level trouble (fork failure under load): no evidence either way, not a verdict
            agg.notes["realproc_could_not_run"] += 1
            agg.notes["realproc_could_not_run: rc %r %s" % (rc, (err or out)[-120:].replace("\n", " "))] += 1
            return agg.to_dict()
        r = json.loads(line[7:])
        agg.notes["realproc_elapsed_s_total"] += int(r["elapsed"] + 0.5)
        agg.samples.append({"real-process": cs["name"], "timeout": job["timeout"], "workers": job["ncpu"], "result": r})

        def viol(cls, detail):
            agg.violations.append({"property": PROP, "class": cls, "site": "real-multiprocessing", "detail": detail,
                                   "facts": r, "spec": {"property": PROP, "kind": "realproc", "case": cs, "timeout": job["timeout"],
                                                        "ncpu": job["ncpu"], "threshold": job.get("threshold", "-")},
                                   "choices": [], "verif_seed": job["seed"], "run_index": 0, "subcheck": "real-process",
                                   "event_log_sha1": "", "event_log_tail": []})

        if r["unsound"]:
            viol("unsound_partial_result", "real run reported chains that are not cycles of the graph: %r" % (r["unsound"],))
        if r["children_alive"]:
            viol("worker_left_behind", "children still alive after the analysis returned: %r" % (r["children_alive"],))
        if job.get("expect_cut") and not r["timed_out"]:
            viol("missing_warning", "intractable kernel, timeout %s: no time-out flag" % job["timeout"])
        if job["timeout"] == -1 and r["timed_out"]:
            viol("false_warning", "time-out flag with timeout -1")
        agg.notes["realproc_sound_and_reaped"] += int(not agg.violations)
    finally:
        os.unlink(path)
    return agg.to_dict()


def run_job(job):
    """job = {"case": case_spec, "n": runs, "seed": verif_seed, "tag": str, "first": idx}"""
    if job.get("kind") == "realproc":
        return realproc_job(job)
    if job.get("kind") == "stubtest":
        from . import c16
        return c16.stubtest_job(job)
    agg = batch.Agg()
    cs = job["case"]
    t_job = batch.real_now()
    case = lcdcheck.get_case(cs)
    ref = lcdcheck.get_ref(case)
    agg.notes["wall_ms_ref:" + job.get("tag", "")] += int((batch.real_now() - t_job) * 1000)
    if ref.get("error"):
        # the untimed sequential analysis of this kernel raises by itself (e.g. the IndexError OSACA has for
        # kernels whose last line number is >= 1000 and lies on an LCD): nothing to say about time-outs
        agg.notes["case_skipped_untimed_analysis_raises"] += 1
        return agg.to_dict()
    agg.notes["case_tractable" if ref["tractable"] else "case_intractable"] += 1
    n_runs = job["n"]
    if ref["lines"] > 150000 and job.get("tag") == "sim-timeout" and not cs.get("keep_runs"):
        n_runs = max(1, n_runs // 6)
        agg.notes["heavy_case_runs_reduced"] += 1
    for i in range(job["first"], job["first"] + n_runs):
        rs = derive_seed(job["seed"], PROP, case.cid, i)
        prng = random.Random(rs)
        params = job.get("params") or run_params(prng, case.klen, ref["lines"], ref["tractable"])
        spec = make_spec(cs, params)
        ch = Chooser(seed=rs ^ 0x5bd1e995)
        res = lcdcheck.execute(spec, ch)
        verdict, info, facts = judge(spec, res, ref)
        agg.runs += 1
        agg.sim_seconds += res.sim.now
        agg.digests.add(res.sim.schedule_digest()[:16])
        if verdict == "inconclusive":
            agg.inconclusive += 1
            agg.notes["inconclusive:" + str(info)] += 1
            continue
        probes(agg, spec, res, facts)
        agg.states.add("%s|k%d|w%d|to%s|killed%d|flag%d|%s" % (
            facts["branch"], min(case.klen, 99), facts["workers"], facts["timeout"] if facts["timeout"] in (0, -1) else "pos",
            min(facts["killed"], 3), int(bool(facts["timed_out"])), facts.get("complete")))
        if facts["killed"] or facts["branch"] == "sequential" or facts["started"] > 1:
            agg.nontrivial.add(res.sim.schedule_digest()[:16])
        if len(agg.samples) < 2 and facts["killed"]:
            agg.samples.append({"kernel": cs["name"], "arch": cs["arch"], "klen": case.klen,
                                "workers": spec["workers"], "timeout": spec["timeout"],
                                "threshold": spec["threshold"], "facts": {k: v for k, v in facts.items()},
                                "kills": lcdcheck.kill_facts(res)[:4], "choices": len(ch.rec)})
        if verdict == "violation":
            for v in info:
                v.update({"spec": spec, "choices": list(ch.rec), "verif_seed": job["seed"],
                          "run_index": i, "subcheck": job.get("tag", "sim-timeout"),
                          "event_log_sha1": res.sim.digest(),
                          "event_log_tail": [repr(e) for e in res.sim.log[-25:]]})
                agg.violations.append(v)
            if len(agg.violations) > 40:
                break
    agg.notes["wall_ms:" + job.get("tag", "")] += int((batch.real_now() - t_job) * 1000)
    agg.notes["max_job_wall_ms:%s" % cs["name"][-40:]] = int((batch.real_now() - t_job) * 1000)
    return agg.to_dict()


def replay_once(spec, choices):
    """Re-execute one case; returns (list of violations, digest)."""
    if spec.get("kind") == "realproc":
        d = realproc_job({"kind": "realproc", "case": spec["case"], "timeout": spec["timeout"], "ncpu": spec["ncpu"],
                          "threshold": spec.get("threshold", "-"), "seed": 0})
        return d["violations"], "", []
    case = lcdcheck.get_case(spec["case"])
    ref = lcdcheck.get_ref(case)
    ch = Chooser(replay=choices)
    res = lcdcheck.execute(spec, ch)
    verdict, info, facts = judge(spec, res, ref)
    vs = info if verdict == "violation" else []
    return vs, res.sim.digest(), ch.rec


# ------------------------------------------------------------------ corpus for this property
D2_KERNEL_N = 12


def d2_scenario():
    """Deterministic scenario for the known finding: short dense kernel, sequential branch."""
    rng = random.Random(19)
    shape, text = corpus.gen_dense_kernel("x86", rng, D2_KERNEL_N, "fib")
    cs = {"name": "gen/d2-fib%d" % D2_KERNEL_N, "arch": "zen1", "text": text}
    params = {"workers": 4, "threshold": None, "timeout": 1, "speeds": [1e-3] * 5, "parent_cost": 1e-3}
    return cs, params


def build_cases(tier, seed):
    rng = random.Random(derive_seed(seed, PROP, "corpus"))
    shipped = corpus.shipped_kernels()
    arm_models = ["tx2", "n1", "a64fx", "tsv110"]
    x86_models = ["zen1"] if tier == "quick" else ["zen1", "zen2", "icx"]
    cases = []
    small = [s for s in shipped if "long_LCD" not in s[0] and "iaca" not in s[0]]
    if tier == "quick":
        tests = [s for s in small if s[0].startswith("tests")]
        ex = [s for s in small if not s[0].startswith("tests")]
        rng.shuffle(ex)
        small = tests + ex[:10]
    for i, (name, isa, text) in enumerate(small):
        archs = x86_models if isa == "x86" else ([arm_models[i % 4]] if tier == "quick" else arm_models[:2] + [arm_models[2 + i % 2]])
        for a in archs if tier != "quick" else archs[:1]:
            cases.append({"name": name, "arch": a, "text": text, "flag_deps": bool(i % 3 == 0)})
    # padded variants crossing the real threshold
    npad = 4 if tier == "quick" else 14
    for j in range(npad):
        name, isa, text = small[rng.randrange(len(small))]
        lines = corpus.kernel_lines(text, isa)
        if not lines:
            continue
        if rng.random() < 0.6:
            t = corpus.pad_kernel(lines, isa, rng, rng.randint(50, 64))
            tag = "pad"
        else:
            times = max(2, -(-50 // max(1, len([l for l in lines if corpus._is_instr(l)]))))
            t = corpus.repeat_kernel(lines, times)
            tag = "rep%d" % times
        cases.append({"name": "%s+%s" % (name, tag), "arch": "zen1" if isa == "x86" else arm_models[j % 4], "text": t})
    # kernels deep inside a big file (all line numbers above 1000), with and without the closing branch
    for j in range(4 if tier == "quick" else 24):
        isa = "x86" if j % 2 == 0 else "aarch64"
        shape, t = corpus.gen_kernel(isa, rng, rng.choice([50, 54, 60]), rng.choice(["chains", "ring1", "bump_mem", "mixed"]), noise=False)
        body, sel = corpus.deep_variant(t, isa, rng.choice([1000, 1499, 5000]), drop_tail=(j % 4 < 2))
        cases.append({"name": "gen/deep-%s-%d" % (shape, j), "arch": "zen1" if isa == "x86" else arm_models[j % 4], "text": body,
                      "lines": sel})
    for w in corpus.windowed_cases(rng, 3 if tier == "quick" else 20):
        cases.append({"name": w["name"], "arch": w["arch"], "text": w["text"], "lines": w["lines"]})
    for j in range(1 if tier == "quick" else 8):
        isa = "x86" if j % 2 == 0 else "aarch64"
        shape, t = corpus.gen_kernel(isa, rng, rng.choice([50, 52, 56]), "ladder", noise=False)
        cases.append({"name": "gen/ladder-%d" % j, "arch": "zen1" if isa == "x86" else arm_models[j % 4], "text": t})
    # generated tractable
    ngen = 16 if tier == "quick" else 120
    for j in range(ngen):
        isa = "x86" if j % 2 == 0 else "aarch64"
        n = rng.choice([3, 5, 8, 12, 20, 30, 45, 50, 52, 60, 70])
        shape, t = corpus.gen_kernel(isa, rng, n)
        cases.append({"name": "gen/%s-%d-%d" % (shape, n, j), "arch": "zen1" if isa == "x86" else arm_models[j % 4], "text": t})
    # intractable
    dense = []
    long_lcd = [s for s in shipped if "long_LCD" in s[0]]
    for name, isa, text in long_lcd:
        dense.append({"name": name, "arch": "zen1", "text": text})
    # many-but-enumerable paths per root (2^(n/2)): workers finish roots and make long, multi-part deliveries
    for j in range(3 if tier == "quick" else 16):
        isa = "x86" if j % 2 == 0 else "aarch64"
        n = rng.choice([18, 20, 20])
        shape, t = corpus.gen_dense_kernel(isa, rng, n, "layers2")
        dense.append({"name": "gen/dense-%s-%d-%d" % (shape, n, j), "arch": "zen1" if isa == "x86" else arm_models[j % 4], "text": t,
                      "more_runs": True})
    nd = 5 if tier == "quick" else 40
    for j in range(nd):
        isa = "x86" if j % 2 == 0 else "aarch64"
        n = rng.choice([26, 34, 40, 52, 64, 90, 130])
        shape, t = corpus.gen_dense_kernel(isa, rng, n)
        dense.append({"name": "gen/dense-%s-%d-%d" % (shape, n, j), "arch": "zen1" if isa == "x86" else arm_models[j % 4], "text": t})
    return cases, dense


# ------------------------------------------------------------------ check
def archs_for(tier):
    return ["zen1", "tx2", "n1", "a64fx", "tsv110"] + ([] if tier == "quick" else ["zen2", "icx"])


def build_jobs(tier, seed):
    cases, dense = build_cases(tier, seed)
    n_tr = 36 if tier == "quick" else 160
    n_dense = 6 if tier == "quick" else 60
    jobs = []
    for cs in dense:
        big = "long_LCD" in cs["name"]
        per = 2 if big else 3
        total = (4 if big else n_dense) if tier == "quick" else (40 if big else n_dense)
        if cs.get("more_runs"):
            total = 42 if tier == "quick" else 180
        for first in range(0, total, per):
            jobs.append({"case": dict(cs, ref_cap=15000), "n": min(per, total - first), "first": first,
                         "seed": seed, "tag": "sim-timeout-dense"})
    for cs in cases:
        per = 12 if tier == "quick" else 80
        for first in range(0, n_tr, per):
            jobs.append({"case": cs, "n": min(per, n_tr - first), "first": first, "seed": seed,
                         "tag": "sim-timeout"})
    cs, params = d2_scenario()
    jobs.append({"case": cs, "n": 1, "first": 0, "seed": seed, "tag": "known-finding-scenario",
                 "params": params})
    # stub fidelity: a few runs on the real multiprocessing module with the real clock
    long_lcd = [c for c in dense if "long_LCD" in c["name"]]
    gen_dense = [c for c in dense if "long_LCD" not in c["name"]]
    real = []
    if long_lcd:
        real.append({"case": long_lcd[0], "timeout": 1, "ncpu": 4, "expect_cut": True})
    if long_lcd:
        # (generated dense kernels are not run for real: in one second 16 real workers can produce millions
        # of paths, and copying them out of the manager takes the real code many minutes)
        real.append({"case": long_lcd[0], "timeout": 0, "ncpu": 16, "expect_cut": True})
        if tier != "quick":
            real.append({"case": long_lcd[0], "timeout": 2, "ncpu": 3, "expect_cut": True})
    for j, c in enumerate(cases[: (2 if tier == "quick" else 12)]):
        real.append({"case": c, "timeout": [-1, 10][j % 2], "ncpu": [5, 2][j % 2], "threshold": 1})
    for r in real:
        jobs.insert(0, dict(r, kind="realproc", seed=seed))
    jobs.insert(0, {"kind": "stubtest", "seed": seed + 1, "n": 40 if tier == "quick" else 400})
    return jobs


SHRINKERS = None


def shrink_job(job):
    from . import flow, shrink
    if job["v"]["spec"].get("kind") == "realproc":
        return dict(job["v"], minimised={"note": "real-process run; not minimised"})
    shr = [shrink.drop_text_lines(("case", "text")), shrink.lower_int("workers")]
    return flow.do_shrink(job["v"], replay_once, shr)


def replay_file(doc):
    root = env.make_scratch()
    try:
        archs = [doc["spec"]["case"]["arch"]]
        env.build_data_dir(root, archs)
        lcdcheck.worker_init(root)
        vs, digest, rec = replay_once(doc["spec"], doc["choices"])
        return vs, digest
    finally:
        env.remove_scratch(root)


def digests_for(items):
    import os
    root = os.environ.get("VERIF_SCRATCH_ROOT")
    own = None
    if not root or not os.path.isdir(root):
        root = own = env.make_scratch()
        env.build_data_dir(root, sorted({it["spec"]["case"]["arch"] for it in items}))
    try:
        lcdcheck.worker_init(root)
        return [replay_once(it["spec"], it["choices"])[1] for it in items]
    finally:
        if own:
            env.remove_scratch(own)


def build_det_jobs(tier, seed, root):
    n = 16 if tier == "quick" else 208
    cases, dense = build_cases(tier, seed)
    pool = cases[: max(8, n // 4)] + dense[1:3]
    per = 2 if tier == "quick" else 13
    jobs = []
    for first in range(0, n, per):
        jobs.append({"items": [(i, pool[i % len(pool)]) for i in range(first, min(n, first + per))],
                     "seed": seed, "root": root})
    return jobs


def det_job(job):
    """Same seed twice in-process, once through Replay(recorded choices), once in a fresh
    interpreter under another PYTHONHASHSEED: identical event-log digests."""
    from . import flow
    seed = job["seed"]
    items, errs = [], []
    for i, cs in job["items"]:
        case = lcdcheck.get_case(cs)
        ref = lcdcheck.get_ref(case)
        rs = derive_seed(seed, PROP, "det", i)
        params = run_params(random.Random(rs), case.klen, ref["lines"], ref["tractable"])
        spec = make_spec(cs, params)
        spec["max_steps"] = 12000  # a capped run is as deterministic as a complete one, and cheaper
        ch = Chooser(seed=rs)
        r1 = lcdcheck.execute(spec, ch)
        r2 = lcdcheck.execute(spec, Chooser(seed=rs))
        r3 = lcdcheck.execute(spec, Chooser(replay=ch.rec))
        d1, d2, d3 = r1.sim.digest(), r2.sim.digest(), r3.sim.digest()
        if not (d1 == d2 == d3):
            errs.append("nondeterministic simulation: %s seed %d digests %s %s %s" % (cs["name"], rs, d1, d2, d3))
        items.append({"spec": spec, "choices": list(ch.rec), "digest": d1})
    fresh, err = flow.fresh_digests(PROP, [{"spec": it["spec"], "choices": it["choices"]} for it in items],
                                    7 + seed % 5, job["root"])
    if err:
        errs.append(err)
    else:
        bad = [i for i, (it, d) in enumerate(zip(items, fresh)) if it["digest"] != d]
        if bad:
            errs.append("fresh interpreter under another PYTHONHASHSEED gave different event logs for items %r" % bad[:5])
    return errs, len(items)


RULE = ("one evaluation = one simulated analysis (real KernelDG constructor + Frontend) of one kernel with "
        "drawn worker count, threshold, timeout and per-task speeds under one seeded schedule; "
        "distinct = distinct digest of the context-switch/kill/apply/exit event sequence; non-trivial = "
        "the run killed at least one worker, took the sequential branch under a deadline, or ran more "
        "than one worker")
ASSUMPTIONS = [
    "simulated time passes only in time.sleep and in line events of the path enumeration / process targets "
    "(50 lines per slice, per-task cost 1e-5..1e-3 s/line or scaled to straddle the deadline); manager requests, "
    "graph construction and post-processing cost zero simulated time",
    "a simulated process is a thread running the real target on a deep copy of its arguments (fork semantics); "
    "module-level globals of osaca are shared between parent and workers in this check",
    "SIGKILL lands only between traced lines of pure-Python code or at simulated OS calls, not inside C calls",
    "no clock jumps, fork failures or allocation failures are injected (C19 does not speak about them)",
    "deadline bound = timeout + 1.0 simulated seconds",
]
COMPONENTS = {
    "real": ["osaca.semantics.kernel_dg.KernelDG (graph construction, partitioning, poll loop, kill loop, list copy, "
             "post-processing)", "KernelDG._extend_path", "networkx all_simple_paths", "osaca.frontend.Frontend",
             "parsers, ISASemantics, ArchSemantics, MachineModel (case preparation)"],
    "stub": ["multiprocessing.Process -> SimProcess", "multiprocessing.Manager().list() -> SimManager/SimListProxy",
             "multiprocessing.cpu_count", "time.time/sleep/monotonic/perf_counter", "os.kill, os.getpid"],
}


def check(tier, seed, fingerprint, t0):
    from . import flow
    return flow.standard_check(
        PROP, tier, seed, fingerprint, t0, archs=archs_for(tier), worker_init=lcdcheck.worker_init,
        build_jobs=build_jobs, run_job=run_job, shrink_job=shrink_job, rule=RULE,
        assumptions=ASSUMPTIONS, components=COMPONENTS, determinism=(build_det_jobs, det_job))
