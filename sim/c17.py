"""C17 — model caches are transparent, also after interrupted or racing writes.

A "machine" (package data dir, user data dir, home cache, permission table) lives in real files
below a per-episode root; 1..4 simulated OSACA processes (each with a private copy of the osaca
package) run the real `osaca.osaca.run` with every file-system call intercepted (fs.py).  A
history of operations (run groups with crashes / write errors / races, model edits, planted
caches, permission flips, wipes, shadowing, machine crashes, long-lived processes) is executed
and every report is compared with a cache-less reference computed by the real code.
"""
import hashlib
import io
import json
import os
import random
import re
import shutil
import sys

from . import core, procs, fs as fsmod, isolate, env, batch, corpus
from .core import Sim, Chooser, derive_seed, SimKilled, current_task

PROP = "C17"
CTX = {"root": None, "refs": {}, "artifacts": {}, "texts": {}, "harness_mods": None}


def worker_init(root):
    CTX["root"] = root
    procs.install()
    fsmod.install()
    env.use_repo()
    import osaca.utils as u
    env.point_osaca_at(root, u)
    import osaca.osaca  # noqa
    CTX["harness_mods"] = isolate.snapshot()


# ------------------------------------------------------------------ model / ISA / kernel material
KERNELS = {
    "x86": [
        ("k_triad", "\tvmovapd\t(%rsi,%rax), %ymm0\n\tvfmadd213pd\t(%rdx,%rax), %ymm1, %ymm0\n\tvmovapd\t%ymm0, (%rdi,%rax)\n\taddq\t$32, %rax\n\tcmpq\t%rax, %rcx\n\tjne\t.L2\n"),
        ("k_chain", "\tvaddpd\t%xmm0, %xmm1, %xmm0\n\tvmulpd\t%xmm0, %xmm2, %xmm3\n\tvaddpd\t%xmm3, %xmm0, %xmm0\n\taddq\t$8, %rax\n\tcmpq\t%rax, %rcx\n\tjne\t.L1\n"),
        ("k_mem", "\tvmovsd\t8(%rax), %xmm1\n\tvaddsd\t16(%rax), %xmm1, %xmm2\n\tvmovsd\t%xmm2, 8(%rax)\n\taddq\t$8, %rax\n\tjne\t.L1\n"),
        ("k_unknown", "\tvaddpd\t%xmm0, %xmm1, %xmm0\n\tfrobnicate\t%xmm0, %xmm1\n\taddq\t$8, %rax\n\tjne\t.L1\n"),
        ("k_rmw", "\taddq\t$1, 8(%rax)\n\tpushq\t-8(%r13)\n\tvaddpd\t16(%rbx), %ymm0, %ymm1\n\taddl\t%ecx, (%rdx)\n\taddq\t$8, %rax\n\tjne\t.L1\n"),
        ("k_loads", "\tmovq\t8(%rax), %rcx\n\tvmovapd\t16(%rbx), %ymm2\n\tmovl\t(%rdx), %esi\n\tvaddpd\t-8(%r13), %ymm2, %ymm3\n\taddq\t$8, %rax\n\tjne\t.L1\n"),
    ],
    "aarch64": [
        ("k_triad", "\tldr\tq0, [x1, x3]\n\tldr\tq1, [x2, x3]\n\tfmla\tv0.2d, v1.2d, v2.2d\n\tstr\tq0, [x0, x3]\n\tadd\tx3, x3, #16\n\tcmp\tx3, x4\n\tb.ne\t.L2\n"),
        ("k_chain", "\tfadd\td0, d0, d1\n\tfmul\td2, d0, d3\n\tfadd\td0, d2, d0\n\tadd\tx3, x3, #8\n\tcmp\tx3, x4\n\tb.ne\t.L1\n"),
        ("k_mem", "\tldr\td1, [x0, #8]\n\tfadd\td2, d1, d3\n\tstr\td2, [x0, #8]\n\tldp\tq4, q5, [x9], #64\n\tadd\tx0, x0, #8\n\tb.ne\t.L1\n"),
        ("k_unknown", "\tfadd\td0, d0, d1\n\tfrobnicate\td0, d1\n\tadd\tx3, x3, #8\n\tb.ne\t.L1\n"),
        ("k_rmw", "\tldr\tq0, [x1, x3]\n\tfmla\tv0.2d, v1.2d, v2.2d\n\tstr\tq0, [x1, x3]\n\tstp\tq4, q5, [x10, #-32]!\n\tldp\tq6, q7, [x9], #64\n\tadd\tx3, x3, #16\n\tb.ne\t.L1\n"),
        ("k_loads", "\tldr\td1, [x0, #8]\n\tldr\tq2, [x1, x3]\n\tldp\tq4, q5, [x9, #-32]\n\tfadd\td2, d1, d3\n\tadd\tx0, x0, #8\n\tb.ne\t.L1\n"),
    ],
}
OPTION_SETS = [[], ["--fixed"], ["-f"], ["--ignore-unknown"], ["--fixed", "-f"]]


def split_forms(text):
    """(header incl. 'instruction_forms:' line, [entry blocks]) of a model / ISA YAML text."""
    m = re.search(r"^instruction_forms:\s*\n", text, re.M)
    head = text[: m.end()]
    body = text[m.end():]
    m2 = re.match(r"(\s*)- ", body)
    indent = m2.group(1) if m2 else ""
    parts = re.split(r"(?m)^%s- " % re.escape(indent), body)
    entries = [indent + "- " + p for p in parts[1:]]
    return head, entries


def entry_names(entry):
    m = re.match(r"\s*- name:\s*(.*)", entry)
    if not m:
        return []
    v = m.group(1).strip()
    if v.startswith("["):
        return [x.strip().strip("'\"").lower() for x in v.strip("[]").split(",")]
    return [v.strip("'\"").lower()]


def mnemonics_of(isa):
    out = set()
    for name, text in KERNELS[isa]:
        for l in text.split("\n"):
            t = l.strip().split()
            if t and not t[0].endswith(":") and not t[0].startswith((".", "#", "/")):
                out.add(t[0].lower())
    return out


def trimmed(text, isa, keep_extra=12, seed=0):
    """Keep the forms the kernel corpus uses plus a few others: a small but genuine model."""
    head, entries = split_forms(text)
    want = mnemonics_of(isa)
    # AT&T suffix handling in the model lookup: keep base names too
    want |= {w[:-1] for w in list(want) if len(w) > 3}
    rng = random.Random(seed)
    keep = [e for e in entries if set(entry_names(e)) & want or len(entry_names(e)) > 1]
    rest = [e for e in entries if not (set(entry_names(e)) & want or len(entry_names(e)) > 1)]
    rng.shuffle(rest)
    keep += rest[:keep_extra]
    return head + "".join(keep)


def edit_semantic(text, isa, k, kh=0):
    """Semantic variant (k, kh): k times +1.0 on the latency of the forms of mnemonics the kernels use
    (an edit late in the file), kh times +1.0 on every load latency in the header (an edit early in the
    file).  Kept apart because a cache key computed over part of the file misses one of them."""
    if k == 0 and kh == 0:
        return text
    head, entries = split_forms(text)
    targets = {"x86": ["vaddpd", "addq", "vmulpd"], "aarch64": ["fadd", "add", "fmul"]}[isa]
    out = []
    for e in entries:
        names = entry_names(e)
        bump = k if any(t in names for t in targets) else 0
        if bump:
            e = re.sub(r"(?m)^(\s*latency:\s*)([0-9.]+)", lambda m: "%s%s" % (m.group(1), float(m.group(2)) + bump), e)
        out.append(e)
    # header data too: every load latency +k (so kernels with loads change even if their forms do not)
    def bump_line(m):
        return m.group(1) + re.sub(r"(\d+\.\d+)", lambda n: str(float(n.group(1)) + kh), m.group(2))
    if kh:
        head = re.sub(r"(?m)^(load_latency:)(.*)$", bump_line, head, count=1)
    return head + "".join(out)


def edit_comment(text, k):
    return text + "".join("# comment-only edit %d\n" % i for i in range(k))


def sha(text):
    return hashlib.sha256(text.encode()).hexdigest()


def load_texts(arch, tiny, variant=None):
    key = (arch, tiny, variant)
    if key in CTX["texts"]:
        return CTX["texts"][key]
    if variant == "hidden_loads":
        model, isa_text = load_texts(arch, tiny)
        model = re.sub(r"(?m)^hidden_loads:\s*false\s*$", "hidden_loads: true", model, count=1)
        CTX["texts"][key] = (model, isa_text)
        return model, isa_text
    isa = env.isa_of(arch)
    src = os.path.join(env.REPO, "osaca", "data")
    model = open(os.path.join(src, arch + ".yml")).read()
    isa_text = open(os.path.join(src, "isa", isa + ".yml")).read()
    if tiny:
        model = trimmed(model, isa, 12, 1)
    isa_text = trimmed(isa_text, isa, 10, 2)  # ISA file always trimmed to the corpus (+10 forms)
    CTX["texts"][key] = (model, isa_text)
    return model, isa_text


# ------------------------------------------------------------------ the machine
class Machine:
    """Files of one episode.  All mutation by the harness happens while no process runs."""

    def __init__(self, root, arch, isa, model_text, isa_text):
        self.root, self.arch, self.isa = root, arch, isa
        self.pkg = os.path.join(root, "pkg", "data")
        self.user = os.path.join(root, "home", ".osaca", "data")
        self.cache = os.path.join(root, "home", ".osaca", "cache")
        self.kdir = os.path.join(root, "kernels")
        for d in (os.path.join(self.pkg, "isa"), os.path.join(root, "home"), self.kdir):
            os.makedirs(d, exist_ok=True)
        self.model_path = os.path.join(self.pkg, arch + ".yml")
        self.isa_path = os.path.join(self.pkg, "isa", isa + ".yml")
        self.write(self.model_path, model_text)
        self.write(self.isa_path, isa_text)
        for name, text in KERNELS[isa]:
            self.write(os.path.join(self.kdir, name + ".s"), text)
        self.shadow_path = os.path.join(self.user, arch + ".yml")

    @staticmethod
    def write(path, text, keep_stat=False):
        """Atomic (temp file + rename), as editors and package managers write: a process that is reading
        the file at that moment keeps reading the old content, nobody ever sees a torn file.  (A model file
        torn by an in-place rewrite is garbage input, not a cache matter.)"""
        os.makedirs(os.path.dirname(path), exist_ok=True)
        tmp = path + ".harness-edit"
        st = None
        if keep_stat and os.path.exists(path):
            # an edit that a stat()-based validity test cannot see: same byte length, time stamps restored
            # (cp -p, rsync -t, tar x, touch -r, or a file system with coarse time stamps).  Only content
            # tells the versions apart.  Returns False when the new text has another length (ordinary edit).
            st = fsmod.real("stat")(path)
            if len(text.encode()) != st.st_size:
                st = None
        with fsmod.real("open")(tmp, "w") as f:
            f.write(text)
        fsmod.real("replace")(tmp, path)
        if st is not None:
            os.utime(path, ns=(st.st_atime_ns, st.st_mtime_ns))
        return st is not None

    @staticmethod
    def read(path):
        with fsmod.real("open")(path, "r") as f:
            return f.read()

    def effective_model_text(self):
        if os.path.exists(self.shadow_path):
            return self.read(self.shadow_path)
        return self.read(self.model_path)

    def effective_model_path(self):
        return self.shadow_path if os.path.exists(self.shadow_path) else self.model_path

    def data_dirs(self):
        return [self.user, self.pkg]

    def companion(self, path, text):
        d, b = os.path.split(path)
        stem = os.path.splitext(b)[0]
        return os.path.join(d, ".%s_%s.pickle" % (stem, sha(text)))

    def home_cache(self, path, text):
        stem = os.path.splitext(os.path.basename(path))[0]
        return os.path.join(self.cache, "%s_%s.pickle" % (stem, sha(text)))


def spawn_osaca(sim, fs, m, name, analyses, records, gates=None, fault=None, wait_for=None, pid=2000):
    """A simulated OSACA process: private package copy, runs `analyses` (list of argv) in order.
    records[name] = list of per-analysis dicts."""
    recs = records.setdefault(name, [])

    def body():
        t = current_task()
        mods = isolate.fresh_osaca(m.data_dirs(), m.cache)
        t.attrs["mods"] = mods
        sys.modules.update(mods)
        o = mods["osaca.osaca"]
        if wait_for is not None:
            sim.wait_until(wait_for, "start-gate")
        for i, argv in enumerate(analyses):
            if gates is not None and i > 0:
                sim.wait_until(lambda i=i: gates[i], "edit-gate")
            rec = {"argv": argv, "status": "running", "report": None, "i": i}
            recs.append(rec)
            args = None
            try:
                p = o.create_parser()
                args = p.parse_args(argv)
                o.check_arguments(args, p)
                buf = io.StringIO()
                o.run(args, output_file=buf)
                rec["report"] = strip_ts(buf.getvalue()).replace(m.root, "<root>")
                rec["status"] = "ok"
            except SimKilled:
                rec["status"] = "killed"
                raise
            except core.SimAbort:
                rec["status"] = "aborted"
                raise
            except core.HarnessError:
                raise
            except SystemExit as e:
                rec["status"] = "error"
                rec["error"] = "SystemExit(%r)" % (e.code,)
            except Exception as e:
                rec["status"] = "error"
                rec["error"] = "%s: %s" % (type(e).__name__, str(e)[:300])
                import traceback
                rec["tb"] = traceback.format_exc()[-1500:]
            finally:
                try:
                    if args is not None and getattr(args, "file", None) is not None:
                        args.file.close()
                except BaseException:
                    pass
            sim.ev("analysis", i, rec["status"])
        # normal interpreter exit of this process: its atexit handlers run (inside the simulation)
        procs.run_exit_handlers()

    t = sim.spawn(name, body, kind="proc")
    t.attrs["pid"] = pid
    if fault is not None:
        t.attrs["fault"] = dict(fault)
    return t


def strip_ts(text):
    return "\n".join(l for l in text.split("\n") if not l.startswith("Timestamp:"))


# ------------------------------------------------------------------ reference (cache-less OSACA)
def reference(arch, isa, model_text, isa_text, kname, options):
    """Report of the real code on a pristine machine whose every directory is read-only:
    the pure YAML path, no cache read, no cache written."""
    key = (arch, sha(model_text), sha(isa_text), kname, tuple(options))
    if key in CTX["refs"]:
        return CTX["refs"][key]
    root = env.make_scratch("osaca-verif-ref-")
    try:
        m = Machine(root, arch, isa, model_text, isa_text)
        sim = Sim(Chooser(seed=0), max_steps=10 ** 6)
        fs = fsmod.SimFS(sim, root)
        for d in (m.pkg, os.path.join(m.pkg, "isa"), os.path.join(root, "home"), m.kdir, root):
            fs.readonly.add(d)
        records = {}
        argv = ["--arch", arch] + list(options) + [os.path.join(m.kdir, kname + ".s")]
        run_sim(sim, fs, lambda: _wait(sim, [spawn_osaca(sim, fs, m, "ref", [argv], records)]))
        rec = records["ref"][0]
        leftovers = [f for dp, dn, fn in os.walk(root) for f in fn if f.endswith(".pickle")]
        if leftovers:
            raise core.HarnessError("reference run wrote a cache although every directory is read-only: %r" % leftovers)
        out = (rec["status"], rec["report"] if rec["status"] == "ok" else rec.get("error"))
    finally:
        env.remove_scratch(root)
    CTX["refs"][key] = out
    return out


def _wait(sim, tasks):
    sim.wait_until(lambda: all(t.done for t in tasks), "wait-procs")


def run_sim(sim, fs, driver):
    saved = isolate.snapshot()
    prev = fsmod.SimFS.active
    fsmod.SimFS.active = fs
    sim.switch_hooks.append(isolate.switch_hook)
    try:
        sim.run(driver, name="driver")
    finally:
        fsmod.SimFS.active = prev
        isolate.restore(saved)
    bad = next((t.exc for t in sim.tasks if t.exit_status == "harness"), None)
    if bad is not None:
        raise bad
    if sim.main_task.exc is not None:
        raise core.HarnessError("driver failed: %r" % (sim.main_task.exc,))


def artifacts(arch, isa, model_text, isa_text):
    """Valid cache pickles for this content, produced by the real code on a writable pristine
    machine: {"model": (relative file name, bytes), "isa": (...)}."""
    key = (arch, sha(model_text), sha(isa_text))
    if key in CTX["artifacts"]:
        return CTX["artifacts"][key]
    root = env.make_scratch("osaca-verif-art-")
    try:
        m = Machine(root, arch, isa, model_text, isa_text)
        sim = Sim(Chooser(seed=0), max_steps=10 ** 6)
        fs = fsmod.SimFS(sim, root)
        records = {}
        argv = ["--arch", arch, os.path.join(m.kdir, KERNELS[isa][0][0] + ".s")]
        run_sim(sim, fs, lambda: _wait(sim, [spawn_osaca(sim, fs, m, "art", [argv], records)]))
        out = {}
        for dp, dn, fn in os.walk(root):
            for f in fn:
                if f.endswith(".pickle"):
                    p = os.path.join(dp, f)
                    kind = "isa" if os.sep + "isa" + os.sep in p else "model"
                    out[kind] = (os.path.relpath(p, root), open(p, "rb").read())
    finally:
        env.remove_scratch(root)
    CTX["artifacts"][key] = out
    return out


# ------------------------------------------------------------------ episode
def gen_ops(rng, isa, nk, tier, faults=True):
    """A history of 2..10 operations (JSON-able)."""
    n = rng.randint(2, 7 if tier == "quick" else 10)
    ops = []
    nf = 0
    for j in range(n):
        r = rng.random()
        if j == 0 or r < 0.45:
            np_ = rng.choice([1, 1, 2, 2, 3, 4])
            procs_ = []
            for i in range(np_):
                p = {"kernel": rng.randrange(nk), "options": rng.choice(OPTION_SETS)}
                if faults and nf < 3 and rng.random() < 0.35:
                    kind = rng.choice(["crash", "crash", "crash", "enospc", "eio", "eacces"])
                    p["fault"] = {"kind": kind, "at": rng.choice([1, 2, 3, 4, 5, 6, 8, 10, 14, 20, 30])}
                    nf += 1
                if i > 0 and rng.random() < 0.6:
                    p["start_after"] = {"proc": rng.randrange(i), "mut": rng.choice([1, 2, 3, 5, 8, 12])}
                if faults and "fault" not in p and rng.random() < 0.08:
                    p["edit_at"] = {"yml_open": rng.choice([2, 3, 3, 4]), "kind": rng.choice(["semantic", "header"])}
                procs_.append(p)
            ops.append({"op": "run_group", "procs": procs_})
        elif r < 0.53:
            ops.append({"op": "edit_model", "kind": rng.choice(["semantic", "semantic", "header", "comment", "samestat"])})
        elif r < 0.55:
            ops.append({"op": "edit_isa"})
        elif r < 0.67:
            ops.append({"op": "plant", "which": rng.choice(["model", "isa"]), "where": rng.choice(["companion", "home"]),
                        "kind": rng.choice(["cut_zero", "cut_header", "cut_mid", "cut_lastbyte", "foreign_version", "valid"])})
        elif r < 0.75:
            ops.append({"op": "set_writable", "value": rng.random() < 0.4})
        elif r < 0.82:
            ops.append({"op": "wipe", "where": rng.choice(["companion", "home", "both"])})
        elif r < 0.88:
            ops.append({"op": "shadow", "on": rng.random() < 0.7})
        elif r < 0.93 and faults:
            ops.append({"op": "machine_crash"})
        else:
            k = rng.randint(2, 4)
            an = []
            for i in range(k):
                an.append({"kernel": rng.randrange(nk), "options": rng.choice(OPTION_SETS),
                           "edit_before": (rng.choice(["semantic", "header", "comment", "samestat", None]) if i > 0 else None)})
            ops.append({"op": "long_lived", "analyses": an})
    # the bounded-liveness tail: after the last fault a single fault-free run must be right
    ops.append({"op": "run_group", "procs": [{"kernel": rng.randrange(nk), "options": []}], "tail": True})
    return ops


def template_histories(rng, nk):
    """The cache histories the property's quantifier lists, spelled out (then varied by kernel,
    options, racing group sizes and schedule): cold, cold->warm, warm companion, warm home cache
    (data dir read-only), pre-existing cache shipped in the package dir, model edited after caching
    (companion and home), cache written for another file with the same name (user-dir shadow),
    old-format cache, long-lived process across an edit."""
    def run(n=1, **kw):
        return {"op": "run_group", "procs": [dict({"kernel": rng.randrange(nk), "options": rng.choice(OPTION_SETS)}, **kw) for _ in range(n)]}
    ro = {"op": "set_writable", "value": False}
    rw = {"op": "set_writable", "value": True}
    sem = {"op": "edit_model", "kind": rng.choice(["semantic", "semantic", "header"])}
    com = {"op": "edit_model", "kind": "comment"}
    hdr = {"op": "edit_model", "kind": "header"}
    T = {
        "cold_warm_warm": [run(), run(), run(2)],
        "racing_cold_then_warm": [run(rng.choice([2, 3, 4])), run()],
        "home_cache_readonly_dir": [ro, run(), run(), sem, run(), run()],
        "edit_during_cold_run": [{"op": "wipe", "where": "both"},
                                 run(edit_at={"yml_open": rng.choice([2, 3, 3, 4]), "kind": rng.choice(["semantic", "header"])}),
                                 run(), run(2), sem, run()],
        "edit_during_racing_cold_runs": [run(2, edit_at={"yml_open": 3, "kind": "semantic"}), run(), run()],
        "racing_cold_home_cache": [ro, run(rng.choice([2, 3, 4])), run(), sem, run(2), run()],
        "isa_file_rehashed": [run(), {"op": "edit_isa"}, run(2), ro, {"op": "edit_isa"}, run(2), run()],
        "home_cache_then_writable": [ro, run(), rw, run(), sem, ro, run(), run()],
        "shipped_cache_in_pkg_dir": [{"op": "plant", "which": "model", "where": "companion", "kind": "valid"},
                                     {"op": "plant", "which": "isa", "where": "companion", "kind": "valid"}, ro, run(), sem, run(), run()],
        "edit_after_companion_cache": [run(), {"op": "edit_model", "kind": "semantic"}, run(), com, run(), hdr, run()],
        "edit_back_and_forth_home": [ro, run(), sem, run(), {"op": "wipe", "where": "companion"}, run()],
        "shadow_same_name_other_content": [run(), {"op": "shadow", "on": True}, run(), run(), {"op": "shadow", "on": False}, run()],
        "shadow_with_home_cache": [ro, run(), {"op": "shadow", "on": True}, run(), {"op": "shadow", "on": False}, run(), run()],
        "old_format_cache_both_places": [{"op": "plant", "which": "model", "where": "companion", "kind": "foreign_version"},
                                         {"op": "plant", "which": "model", "where": "home", "kind": "foreign_version"},
                                         {"op": "plant", "which": "isa", "where": "home", "kind": "foreign_version"}, run(), ro, run()],
        "truncated_everywhere": [{"op": "plant", "which": "model", "where": "companion", "kind": rng.choice(["cut_zero", "cut_header", "cut_mid", "cut_lastbyte"])},
                                 {"op": "plant", "which": "isa", "where": "home", "kind": rng.choice(["cut_zero", "cut_header", "cut_mid", "cut_lastbyte"])},
                                 run(2), run()],
        "long_lived_across_edits": [{"op": "long_lived", "analyses": [
            {"kernel": rng.randrange(nk), "options": []}, {"kernel": rng.randrange(nk), "options": [], "edit_before": "semantic"},
            {"kernel": rng.randrange(nk), "options": ["--fixed"], "edit_before": "comment"},
            {"kernel": rng.randrange(nk), "options": [], "edit_before": "header"}]}, run()],
        "long_lived_home_cache": [ro, run(), {"op": "long_lived", "analyses": [
            {"kernel": rng.randrange(nk), "options": []}, {"kernel": rng.randrange(nk), "options": [], "edit_before": "semantic"},
            {"kernel": rng.randrange(nk), "options": []}]}, run()],
        # an edit no stat() can see (same length, time stamps restored): only the content hash tells
        "long_lived_across_samestat_edits": [{"op": "edit_model", "kind": "semantic"}, {"op": "long_lived", "analyses": [
            {"kernel": rng.randrange(nk), "options": []}, {"kernel": rng.randrange(nk), "options": [], "edit_before": "samestat"},
            {"kernel": rng.randrange(nk), "options": [], "edit_before": "samestat"},
            {"kernel": rng.randrange(nk), "options": [], "edit_before": "semantic"}]}, run()],
        "samestat_edit_between_runs": [{"op": "edit_model", "kind": "semantic"}, run(), {"op": "edit_model", "kind": "samestat"}, run(), run(),
                                       ro, {"op": "edit_model", "kind": "samestat"}, run(), run()],
        "crash_then_machine_crash": [run(2, fault={"kind": "crash", "at": rng.choice([1, 2, 3, 5, 8])}), {"op": "machine_crash"}, run(), run()],
    }
    return T


class Episode:
    def __init__(self, spec, chooser):
        self.spec, self.ch = spec, chooser
        self.arch = spec["arch"]
        self.isa = env.isa_of(self.arch)
        self.base_model, self.isa_text = load_texts(self.arch, spec.get("tiny", True), spec.get("variant"))
        self.sem_k = 0
        self.semh_k = 0
        self.com_k = 0
        self.shadow_k = None
        self.violations = []
        self.agg = batch.Agg()
        self.digest = hashlib.sha1()
        self.log_tail = []
        self.prev_ref_model = None
        self.pid = 2000
        self.faulted_before = False
        self.served_from_cache_probe = 0

    def model_text(self):
        return edit_comment(edit_semantic(self.base_model, self.isa, self.sem_k, self.semh_k), self.com_k)

    def shadow_text(self):
        return edit_semantic(self.base_model, self.isa, self.shadow_k, self.semh_k) + "# user copy\n"

    def viol(self, cls, detail, facts=None):
        self.violations.append({"property": PROP, "class": cls, "site": "model-cache", "detail": detail,
                                "facts": facts or {}})

    def expected(self, kidx, options):
        mt = self.m.effective_model_text()
        kname = KERNELS[self.isa][kidx][0]
        return reference(self.arch, self.isa, mt, self.isa_text, kname, options), kname

    def argv(self, kidx, options):
        kname = KERNELS[self.isa][kidx][0]
        return ["--arch", self.arch] + list(options) + [os.path.join(self.m.kdir, kname + ".s")]

    # ---- running processes under the simulator
    def simulate(self, plan):
        """plan = list of dicts(name, analyses=[(kidx, options, text_to_write_before|None, expected)],
        fault, start_after).  Returns records."""
        # nothing in a model load has reason to wait: a process that sleeps its way through 300 simulated
        # seconds, or is still busy after 400 000 scheduler steps (a cold run takes a few thousand), hangs
        sim = Sim(self.ch, max_steps=400000, max_now=300.0)
        sim.sticky = self.spec.get("sticky", 1)
        fs = fsmod.SimFS(sim, self.m.root)
        fs.readonly = set(self.readonly)
        fs.dirty = self.dirty
        fs.chunk_policy = self.spec.get("chunking")
        records = {}
        expectations = {}
        tasks = {}

        def driver():
            for i, p in enumerate(plan):
                name = p["name"]
                an = p["analyses"]
                gates = None
                if len(an) > 1:
                    gates = [True] + [False] * (len(an) - 1)
                wait_for = None
                sa = p.get("start_after")
                if sa is not None and sa["proc"] < i:
                    other = tasks[plan[sa["proc"]]["name"]]
                    wait_for = (lambda other=other, k=sa["mut"]: other.done or other.attrs.get("mut", 0) >= k)
                self.pid += 1
                argvs = [self.argv(a[0], a[1]) for a in an]
                expectations[name] = [a[3] for a in an]
                t = spawn_osaca(sim, fs, self.m, name, argvs, records, gates, p.get("fault"), wait_for, self.pid)
                t.attrs["gates"] = gates
                tasks[name] = t
                ea = p.get("edit_at")
                if ea and not os.path.exists(self.m.shadow_path):
                    # the model file is edited by somebody else while this process is between two of its
                    # own reads of it (hash / parse / hash-for-cache-write / report header)
                    def action(kind=ea["kind"]):
                        self.apply_edit(kind)
                        self.group_versions.append(self.m.effective_model_text())
                    t.attrs["fs_hook"] = {"op": "open-r", "path": self.m.model_path, "n": ea["yml_open"], "action": action}
            # long-lived processes: perform the edits between their analyses
            for p in plan:
                t = tasks[p["name"]]
                gates = t.attrs["gates"]
                if gates is None:
                    continue
                recs = records.setdefault(p["name"], [])
                for nxt in range(1, len(gates)):
                    sim.wait_until(lambda t=t, recs=recs, nxt=nxt: t.done or (len(recs) == nxt and recs[-1]["status"] != "running"),
                                   "wait-analysis")
                    if t.done:
                        break
                    text = p["analyses"][nxt][2]
                    if text is not None:
                        if self.m.write(self.m.model_path, text[0], keep_stat=text[1]):
                            self.agg.probes["edit_with_same_size_and_mtime_seen_by_long_lived_process"] += 1
                        sim.ev("model-edited", nxt)
                    gates[nxt] = True
            sim.wait_until(lambda: all(t.done for t in tasks.values()), "wait-procs")

        run_sim(sim, fs, driver)
        self.agg.stats.update(fs.stats)
        for t in tasks.values():
            pl = t.attrs.get("fault")
            if pl is not None and not pl.get("fired"):
                self.agg.stats["fault_planned_but_not_reached"] += 1
        self.digest.update(sim.digest().encode())
        self.log_tail = [repr(e) for e in sim.log[-30:]]
        self.agg.digests.add(sim.schedule_digest()[:16])
        if sim.abort_reason in ("max_steps", "max_now"):
            hung = [n for n, t in sorted(tasks.items())
                    if t.exit_status == "aborted" and not (t.attrs.get("fault") or {}).get("fired")]
            if hung:
                waiting = sorted({(tasks[n].attrs.get("last_parked") or "") for n in hung})
                self.viol("run_hung", "process(es) %s never finished (%s after %s; simulated time %.1f s): %s"
                          % (", ".join(hung), "still busy" if sim.abort_reason == "max_steps" else "still sleeping",
                             "400000 scheduler steps" if sim.abort_reason == "max_steps" else "300 simulated seconds",
                             sim.now, "; ".join(repr(e) for e in sim.log[-3:])),
                          {"hung": hung, "after_fault": self.faulted_before})
            else:
                self.inconclusive = sim.abort_reason
        if sim.deadlock:
            raise core.HarnessError("deadlock in C17 episode: %r" % (sim.log[-3:],))
        self.probe_states(sim, fs, plan)
        return records, expectations, tasks

    def probe_states(self, sim, fs, plan):
        open_w = {}
        per_task = {}
        for e in sim.log:
            if len(e) > 3 and e[2] == "y" and e[3].startswith("fs:"):
                _, op, rel = e[3].split(":", 2)
                is_cache = ".pickle" in rel or "<tmp#" in rel or rel.endswith(".tmp")
                if not is_cache:
                    continue
                loc = "home" if "cache" in rel.split(os.sep) else "companion"
                which = "isa" if os.sep + "isa" + os.sep in os.sep + rel or rel.startswith("pkg/data/isa") or "/isa/" in rel else "model"
                if "cache" in rel.split(os.sep):
                    which = "isa" if os.path.basename(rel).lstrip(".").startswith(("x86_", "aarch64_")) else "model"
                pt = per_task.setdefault(e[1], set())
                if op.startswith("open-w") or op == "os.open":
                    open_w.setdefault(rel, set()).add(e[1])
                    pt.add("w:%s:%s" % (loc, which))
                    if len(open_w[rel]) > 1:
                        self.agg.probes["two_writers_had_the_same_file_open"] += 1
                    others = [t for r, ts in open_w.items() for t in ts if t != e[1]]
                    if others:
                        self.agg.probes["two_processes_writing_cache_files_concurrently"] += 1
                elif op == "close":
                    open_w.get(rel, set()).discard(e[1])
                elif op in ("replace", "rename"):
                    for r in list(open_w):
                        open_w[r].discard(e[1])
                    pt.add("published:%s:%s" % (loc, which))
                elif op == "open-r":
                    pt.add("r:%s:%s" % (loc, which))
                    st = "being_written" if open_w.get(rel) else "quiescent"
                    if open_w.get(rel):
                        self.agg.probes["reader_opened_cache_file_while_writer_had_it_open"] += 1
                    if any(ts - {e[1]} for ts in open_w.values()):
                        self.agg.probes["cache_lookup_while_another_process_was_writing"] += 1
                    self.agg.states.add("lookup|%s|%s|%s|n%d|ro%d" % (loc, which, st, len(plan), int(bool(self.readonly))))
        for name, ops in per_task.items():
            for which in ("model", "isa"):
                wrote = [o for o in ops if o.startswith("w:") and o.endswith(which)]
                read = [o for o in ops if o.startswith("r:") and o.endswith(which)]
                if wrote:
                    self.agg.probes["run_wrote_%s_cache_%s" % (which, wrote[0].split(":")[1])] += 1
                elif read:
                    self.agg.probes["run_served_from_%s_%s_cache" % (read[-1].split(":")[1], which)] += 1
            self.agg.states.add("cacheuse|" + ",".join(sorted(ops)))
        # processes that touched no cache file at all: cold run with nothing writable
        for p in plan:
            if p["name"] not in per_task:
                self.agg.probes["run_without_any_cache_access(read-only everything)"] += 1

    def bump_edit(self, kind):
        if kind in ("semantic", "samestat"):
            self.sem_k += 1
        elif kind == "header":
            self.semh_k += 1
        else:
            self.com_k += 1

    def apply_edit(self, kind):
        self.bump_edit(kind)
        kept = self.m.write(self.m.model_path, self.model_text(), keep_stat=(kind == "samestat"))
        self.agg.stats["op_edit_" + kind] += 1
        if kept:
            self.agg.probes["edit_with_same_size_and_mtime"] += 1

    # ---- judging one finished group
    def judge(self, records, expectations, tasks, plan, tail=False):
        concurrent = len(plan) > 1
        any_fault_fired = False
        for p in plan:
            name = p["name"]
            t = tasks[name]
            pl = t.attrs.get("fault")
            fired = bool(pl and pl.get("fired"))
            any_fault_fired |= fired
            recs = records.get(name, [])
            for rec in recs:
                exp = expectations[name][rec["i"]]
                if exp is None:
                    continue
                (est, erep), kname = exp
                self.agg.runs += 1
                if len(getattr(self, "group_versions", [])) > 1 and rec["status"] == "ok":
                    # the model changed while this group ran: a run of the group may have seen any of the
                    # versions (it is in flight); only later groups are held to the final content
                    opts = p.get("options", rec_opts(rec))
                    alts = [reference(self.arch, self.isa, v, self.isa_text, kname, opts) for v in self.group_versions]
                    if any(a[0] == "ok" and rec["report"] == a[1] for a in alts):
                        continue
                facts = {"concurrent": concurrent, "faulted_self": fired, "after_fault": self.faulted_before,
                         "kernel": kname, "arch": self.arch, "i": rec["i"]}
                if rec["status"] in ("killed", "aborted", "running"):
                    continue
                if fired and pl["kind"] != "crash":
                    # hit by an injected error: may fail, may not be wrong
                    if rec["status"] == "ok" and est == "ok" and rec["report"] != erep:
                        self.viol("faulted_run_returned_wrong_report", "run hit by injected %s returned a report that differs from the reference: %s"
                                  % (pl["kind"], first_diff(erep, rec["report"])), facts)
                    elif rec["status"] == "error":
                        self.agg.probes["faulted_run_failed(allowed)"] += 1
                    continue
                if rec["status"] == "error":
                    if est == "error":
                        continue  # the configuration itself fails without any cache, too
                    cls = "racing_run_failed" if concurrent else "later_run_failed"
                    self.viol(cls, "%s analysis %d of %s raised %s (reference run succeeds)%s"
                              % (name, rec["i"], kname, rec.get("error"), "; after an injected fault" if self.faulted_before or any_fault_fired else ""), facts)
                    continue
                if est == "error":
                    self.viol("report_differs_from_reference", "run succeeded where the cache-less reference raises %s" % erep, facts)
                    continue
                if rec["report"] != erep:
                    stale = self.prev_ref_model is not None and rec["report"] == reference(
                        self.arch, self.isa, self.prev_ref_model, self.isa_text, kname, rec_opts(rec))[1]
                    self.viol("stale_cache_served" if stale else "report_differs_from_reference",
                              "%s analysis %d of %s: %s" % (name, rec["i"], kname, first_diff(erep, rec["report"])), facts)
        if any_fault_fired:
            self.faulted_before = True

    # ---- the history
    def run(self):
        root = env.make_scratch("osaca-verif-c17-")
        self.inconclusive = None
        try:
            self.m = Machine(root, self.arch, self.isa, self.model_text(), self.isa_text)
            self.readonly = set()
            self.dirty = set()
            gi = 0
            for op in self.spec["ops"]:
                kind = op["op"]
                if self.violations or self.inconclusive:
                    break
                if kind == "run_group":
                    plan = []
                    for i, p in enumerate(op["procs"]):
                        plan.append({"name": "g%dp%d" % (gi, i),
                                     "analyses": [(p["kernel"], p["options"], None, self.expected(p["kernel"], p["options"]))],
                                     "fault": p.get("fault"), "start_after": p.get("start_after"),
                                     "edit_at": p.get("edit_at"), "kernel": p["kernel"], "options": p["options"]})
                    gi += 1
                    before = self.m.effective_model_text()
                    self.group_versions = [before]
                    recs, exps, tasks = self.simulate(plan)
                    self.judge(recs, exps, tasks, plan, op.get("tail", False))
                    if len(self.group_versions) > 1:
                        self.prev_ref_model = before
                    self.group_versions = []
                    self.agg.stats["op_run_group_n%d" % len(plan)] += 1
                    self.note_cache_use(tasks)
                elif kind == "long_lived":
                    self.prev_ref_model = self.m.effective_model_text()
                    an = []
                    shadowed = os.path.exists(self.m.shadow_path)
                    for a in op["analyses"]:
                        text = None
                        if a.get("edit_before"):
                            self.bump_edit(a["edit_before"])
                            self.agg.stats["op_edit_" + a["edit_before"]] += 1
                            text = (self.model_text(), a["edit_before"] == "samestat")
                        eff = self.m.read(self.m.shadow_path) if shadowed else self.model_text()
                        kname = KERNELS[self.isa][a["kernel"]][0]
                        exp = (reference(self.arch, self.isa, eff, self.isa_text, kname, a["options"]), kname)
                        an.append((a["kernel"], a["options"], text, exp))
                    plan = [{"name": "g%dL" % gi, "analyses": an}]
                    gi += 1
                    recs, exps, tasks = self.simulate(plan)
                    self.judge(recs, exps, tasks, plan)
                    self.agg.stats["op_long_lived"] += 1
                    if any(a.get("edit_before") for a in op["analyses"]):
                        self.agg.probes["edit_seen_by_long_lived_process"] += 1
                elif kind == "edit_model":
                    self.prev_ref_model = self.m.effective_model_text()
                    self.apply_edit(op["kind"])
                elif kind == "edit_isa":
                    # comment-only edit of the ISA description: new hash, same meaning
                    self.isa_k = getattr(self, "isa_k", 0) + 1
                    self.isa_text = self.isa_text + "# comment-only edit %d\n" % self.isa_k
                    self.m.write(self.m.isa_path, self.isa_text)
                    self.agg.stats["op_edit_isa_comment"] += 1
                elif kind == "plant":
                    self.plant(op)
                elif kind == "set_writable":
                    for d in (self.m.pkg, os.path.join(self.m.pkg, "isa")):
                        (self.readonly.discard if op["value"] else self.readonly.add)(d)
                    self.agg.stats["op_data_dir_%s" % ("writable" if op["value"] else "readonly")] += 1
                elif kind == "wipe":
                    self.wipe(op["where"])
                elif kind == "shadow":
                    self.prev_ref_model = self.m.effective_model_text()
                    if op["on"]:
                        self.shadow_k = self.sem_k + 1
                        self.m.write(self.m.shadow_path, self.shadow_text())
                        self.agg.stats["op_shadow_model_in_user_dir"] += 1
                    elif os.path.exists(self.m.shadow_path):
                        os.unlink(self.m.shadow_path)
                        self.agg.stats["op_unshadow"] += 1
                elif kind == "machine_crash":
                    fs = fsmod.SimFS(None, self.m.root)
                    fs.dirty = self.dirty
                    cuts = fs.machine_crash(self.ch)
                    self.agg.stats.update(fs.stats)
                    self.dirty = set()
                    if any(c[3] < c[2] for c in cuts):
                        self.faulted_before = True
                else:
                    raise core.HarnessError("unknown op %r" % (op,))
        finally:
            env.remove_scratch(root)
        return self

    def note_cache_use(self, tasks):
        pass

    def plant(self, op):
        art = artifacts(self.arch, self.isa, self.m.effective_model_text(), self.isa_text)
        which = op["which"]
        if which not in art:
            self.agg.notes["plant_skipped_no_artifact"] += 1
            return
        rel, data = art[which]
        src_path = self.m.effective_model_path() if which == "model" else self.m.isa_path
        text = self.m.read(src_path)
        target = self.m.companion(src_path, text) if op["where"] == "companion" else self.m.home_cache(src_path, text)
        kind = op["kind"]
        if kind == "valid":
            blob = data
        elif kind == "foreign_version":
            blob = poison(data)
            if blob is None:
                self.agg.notes["plant_skipped_poison_failed"] += 1
                return
        else:
            n = len(data)
            cut = {"cut_zero": 0, "cut_header": min(n, 2 + self.ch.choose(9, "hdr")), "cut_mid": n // 2, "cut_lastbyte": n - 1}[kind]
            blob = data[:cut]
            self.faulted_before = True
        os.makedirs(os.path.dirname(target), exist_ok=True)
        with fsmod.real("open")(target, "wb") as f:
            f.write(blob)
        self.agg.stats["plant_%s_%s" % (op["where"], kind)] += 1

    def wipe(self, where):
        n = 0
        for dp, dn, fn in os.walk(self.m.root):
            for f in fn:
                p = os.path.join(dp, f)
                is_home = p.startswith(self.m.cache)
                if not f.endswith(".yml") and not f.endswith(".s") and (
                        where == "both" or (where == "home") == is_home):
                    os.unlink(p)
                    n += 1
        self.agg.stats["op_wipe_" + where] += 1


def rec_opts(rec):
    a = rec["argv"]
    return [x for x in a[2:-1]]


def first_diff(a, b):
    if a is None or b is None:
        return "%r vs %r" % (a and a[:80], b and b[:80])
    al, bl = a.split("\n"), b.split("\n")
    for i, (x, y) in enumerate(zip(al, bl)):
        if x != y:
            return "first differing line %d: reference %r, got %r" % (i, x[:160], y[:160])
    return "length differs (%d vs %d lines)" % (len(al), len(bl))


def poison(data):
    """Other internal_version + latencies that would change every report if served."""
    import pickle
    saved = isolate.snapshot()
    isolate.restore(CTX["harness_mods"])
    try:
        d = pickle.loads(data)
        d["internal_version"] = (d.get("internal_version") or 0) + 41
        for forms in d.get("instruction_forms_dict", {}).values():
            for f in forms:
                if getattr(f, "latency", None) is not None:
                    f.latency = float(f.latency) + 100.0
        return pickle.dumps(d)
    except Exception:
        return None
    finally:
        isolate.restore(saved)


# ------------------------------------------------------------------ jobs
def run_episode(spec, chooser):
    ep = Episode(spec, chooser)
    ep.run()
    return ep


def make_spec(rng, tier, arch, tiny, faults=True):
    isa = env.isa_of(arch)
    return {"property": PROP, "arch": arch, "tiny": tiny, "sticky": rng.choice([1, 1, 4, 16]),
            "variant": rng.choice([None, None, None, "hidden_loads"]),
            "ops": gen_ops(rng, isa, len(KERNELS[isa]), tier, faults)}


def template_job(job):
    agg = batch.Agg()
    isa = env.isa_of(job["arch"])
    for rep in range(job["reps"]):
        rs = derive_seed(job["seed"], PROP, "tpl", job["arch"], job["tiny"], rep)
        rng = random.Random(rs)
        T = template_histories(rng, len(KERNELS[isa]))
        for name in job["names"]:
            ops = T[name] + [{"op": "run_group", "procs": [{"kernel": rng.randrange(len(KERNELS[isa])), "options": []}], "tail": True}]
            spec = {"property": PROP, "arch": job["arch"], "tiny": job["tiny"], "sticky": rng.choice([1, 4, 16]), "ops": ops,
                    "template": name, "variant": rng.choice([None, None, "hidden_loads"])}
            ch = Chooser(seed=derive_seed(rs, name))
            ep = run_episode(spec, ch)
            merge_episode(agg, ep, spec, ch, dict(job, tag="template:" + name), rep)
            agg.notes["template_histories"] += 1
            agg.states.add("template|" + name + "|" + job["arch"])
    return agg.to_dict()


def run_job(job):
    agg = batch.Agg()
    if job.get("kind") == "sweep":
        return sweep_job(job)
    if job.get("kind") == "template":
        return template_job(job)
    for i in range(job["first"], job["first"] + job["n"]):
        rs = derive_seed(job["seed"], PROP, job["arch"], job["tiny"], job.get("faults", True), i)
        spec = job.get("spec") or make_spec(random.Random(rs), job["tier"], job["arch"], job["tiny"], job.get("faults", True))
        ch = Chooser(seed=rs ^ 0x9e3779b9)
        ep = run_episode(spec, ch)
        merge_episode(agg, ep, spec, ch, job, i)
        if len(agg.violations) > 30:
            break
    return agg.to_dict()


def merge_episode(agg, ep, spec, ch, job, i):
    a = ep.agg
    agg.runs += a.runs
    agg.stats.update(a.stats)
    agg.probes.update(a.probes)
    agg.digests.update(a.digests)
    agg.states.update(a.states)
    agg.notes.update(a.notes)
    agg.notes["episodes"] += 1
    if spec.get("variant"):
        agg.notes["episodes_with_model_variant_" + spec["variant"]] += 1
    if ep.inconclusive:
        agg.inconclusive += 1
    shape = tuple(op["op"] + (str(len(op.get("procs", []))) if op["op"] == "run_group" else op.get("kind", "")) for op in spec["ops"])
    if any(k.startswith("fault_") and "not_reached" not in k for k in a.stats) or len(spec["ops"]) > 2:
        agg.nontrivial.add(hashlib.sha1((repr(shape) + ep.digest.hexdigest()).encode()).hexdigest()[:16])
    if len(agg.samples) < 2:
        agg.samples.append({"arch": spec["arch"], "tiny_model": spec.get("tiny", True), "ops": spec["ops"], "analyses_checked": a.runs,
                            "faults_fired": {k: v for k, v in a.stats.items() if k.startswith("fault_")}})
    for v in ep.violations:
        v.update({"spec": spec, "choices": list(ch.rec), "verif_seed": job.get("seed", 0), "run_index": i,
                  "subcheck": job.get("tag", "history"), "event_log_sha1": ep.digest.hexdigest(),
                  "event_log_tail": ep.log_tail})
        agg.violations.append(v)


def sweep_job(job):
    """cold run -> crash at mutation event k -> later run, for k = 1..F; and the racing variant."""
    agg = batch.Agg()
    arch, tiny = job["arch"], job["tiny"]
    isa = env.isa_of(arch)
    for k in job["ks"]:
        procs_ = [{"kernel": job["kernel"], "options": [], "fault": {"kind": "crash", "at": k}}]
        if job.get("racing"):
            procs_ = [{"kernel": job["kernel"], "options": []},
                      {"kernel": job["kernel"], "options": [], "fault": {"kind": "crash", "at": k},
                       "start_after": {"proc": 0, "mut": job["offset"]}}]
        ops = [{"op": "run_group", "procs": procs_},
               {"op": "run_group", "procs": [{"kernel": job["kernel"], "options": []}], "tail": True},
               {"op": "run_group", "procs": [{"kernel": (job["kernel"] + 1) % len(KERNELS[isa]), "options": []}], "tail": True}]
        spec = {"property": PROP, "arch": arch, "tiny": tiny, "sticky": 1, "ops": ops, "chunking": job["chunking"]}
        rs = derive_seed(job["seed"], PROP, "sweep", arch, k, job.get("offset", 0))
        ch = Chooser(seed=rs)
        ep = run_episode(spec, ch)
        merge_episode(agg, ep, spec, ch, dict(job, tag="sweep"), k)
        agg.notes["sweep_crash_points"] += 1
        if not ep.agg.stats.get("fault_process_crash"):
            agg.notes["sweep_crash_point_beyond_last_event"] += 1
    return agg.to_dict()


def count_mut_events(arch, tiny, kernel, chunking):
    """Mutation events of a fault-free cold run (the sweep's F)."""
    ops = [{"op": "run_group", "procs": [{"kernel": kernel, "options": [], "fault": {"kind": "crash", "at": 10 ** 9}}]}]
    spec = {"property": PROP, "arch": arch, "tiny": tiny, "sticky": 1, "ops": ops, "chunking": chunking}
    ep = Episode(spec, Chooser(replay=[]))
    ep.run()
    return ep.agg.stats.get("fs_write", 0) + ep.agg.stats.get("fs_close", 0) + ep.agg.stats.get("fs_open-w", 0) + \
        ep.agg.stats.get("fs_replace", 0) + ep.agg.stats.get("fs_mkdir", 0) + ep.agg.stats.get("fs_os.open", 0) + \
        ep.agg.stats.get("fs_fsync", 0) + ep.agg.stats.get("fs_unlink", 0) + ep.agg.stats.get("fs_rename", 0)


def replay_once(spec, choices):
    ch = Chooser(replay=choices)
    ep = run_episode(spec, ch)
    return ep.violations, ep.digest.hexdigest(), ch.rec


def archs_for(tier):
    return ["n1", "tx2", "zen1"] if tier == "quick" else ["n1", "tx2", "zen1", "a64fx", "tsv110"]


def build_jobs(tier, seed):
    jobs = []
    tiny_eps = 16 * 10 if tier == "quick" else 16 * 350
    per = 5 if tier == "quick" else 60
    archs = archs_for(tier)
    for first in range(0, tiny_eps, per):
        arch = archs[(first // per) % len(archs)]
        faults = (first // per) % 4 != 3  # every fourth job is a fault-free batch (separate oracle config)
        jobs.append({"arch": arch, "tiny": True, "first": first, "n": per, "seed": seed, "tier": tier, "faults": faults,
                     "tag": "history" if faults else "history-faultfree"})
    full_eps = 32 if tier == "quick" else 800
    perf = 2 if tier == "quick" else 20
    for first in range(0, full_eps, perf):
        arch = archs[(first // perf) % len(archs)]
        jobs.append({"arch": arch, "tiny": False, "first": first, "n": perf, "seed": seed, "tier": tier, "faults": True,
                     "tag": "history-shipped-model"})
    # the cache histories named by the quantifier, spelled out
    names = sorted(template_histories(random.Random(0), 4))
    reps = 2 if tier == "quick" else 16
    for arch in archs:
        for tiny in ((True,) if tier == "quick" else (True, False)):
            for i in range(0, len(names), 2):
                jobs.append({"kind": "template", "arch": arch, "tiny": tiny, "names": names[i:i + 2], "reps": reps,
                             "seed": seed, "tier": tier})
    if tier != "quick":
        # "for all shipped models": every non-empty shipped model, untrimmed, through every template once
        # (the edits only touch forms / header data the corpus kernels use, whatever the model's size)
        others = [a for a in env.X86_ALL + env.ARM_ALL if a not in archs]
        for arch in others:
            for i in range(0, len(names), 2):
                jobs.append({"kind": "template", "arch": arch, "tiny": False, "names": names[i:i + 2], "reps": 1,
                             "seed": seed, "tier": tier})
    # systematic sweep over the crash point of the cache write
    sweep_archs = [("n1", True), ("zen1", True)] if tier == "quick" else \
        [(a, t) for a in archs for t in (True, False)]
    for arch, tiny in sweep_archs:
        for chunking in ("4096", "header", "lastbyte"):
            F = count_mut_events(arch, tiny, 0, chunking)
            ks = list(range(1, F + 2))
            if chunking != "4096":
                # these policies only add the header-only / last-byte-missing cut points
                ks = ks[: min(len(ks), 8)] + ks[-6:] if len(ks) > 14 else ks
            for i in range(0, len(ks), 8):
                jobs.append({"kind": "sweep", "arch": arch, "tiny": tiny, "kernel": 0, "ks": ks[i:i + 8], "seed": seed,
                             "chunking": chunking})
            if chunking == "4096":
                for off in ([3] if tier == "quick" else [1, 2, 4, 6, 10]):
                    for i in range(0, len(ks), 8):
                        jobs.append({"kind": "sweep", "arch": arch, "tiny": tiny, "kernel": 0, "ks": ks[i:i + 8], "seed": seed,
                                     "racing": True, "offset": off, "chunking": chunking})
    return jobs


def shrink_job(job):
    from . import flow, shrink
    import copy

    def drop_ops(spec):
        ops = spec["ops"]
        for i in range(len(ops)):
            if len(ops) > 1:
                s = copy.deepcopy(spec)
                del s["ops"][i]
                yield s

    def drop_procs(spec):
        for i, op in enumerate(spec["ops"]):
            if op["op"] == "run_group" and len(op["procs"]) > 1:
                for j in range(len(op["procs"])):
                    s = copy.deepcopy(spec)
                    del s["ops"][i]["procs"][j]
                    for p in s["ops"][i]["procs"]:
                        p.pop("start_after", None)
                    yield s

    def drop_faults(spec):
        for i, op in enumerate(spec["ops"]):
            if op["op"] == "run_group":
                for j, p in enumerate(op["procs"]):
                    if "fault" in p:
                        s = copy.deepcopy(spec)
                        del s["ops"][i]["procs"][j]["fault"]
                        yield s
                    if p.get("options"):
                        s = copy.deepcopy(spec)
                        s["ops"][i]["procs"][j]["options"] = []
                        yield s

    return flow.do_shrink(job["v"], replay_once, [drop_ops, drop_procs, drop_faults])


def replay_file(doc):
    root = env.make_scratch()
    try:
        worker_init(root)
        vs, digest, rec = replay_once(doc["spec"], doc["choices"])
        return vs, digest
    finally:
        env.remove_scratch(root)


def digests_for(items):
    root = env.make_scratch()
    try:
        worker_init(root)
        return [replay_once(it["spec"], it["choices"])[1] for it in items]
    finally:
        env.remove_scratch(root)


def build_det_jobs(tier, seed, root):
    n = 12 if tier == "quick" else 200
    per = 1 if tier == "quick" else 10
    return [{"first": f, "n": min(per, n - f), "seed": seed, "tier": tier} for f in range(0, n, per)]


def det_job(job):
    from . import flow
    items, errs = [], []
    archs = archs_for(job["tier"])
    for i in range(job["first"], job["first"] + job["n"]):
        rs = derive_seed(job["seed"], PROP, "det", i)
        spec = make_spec(random.Random(rs), job["tier"], archs[i % len(archs)], True)
        ch = Chooser(seed=rs)
        e1 = run_episode(spec, ch)
        e2 = run_episode(spec, Chooser(seed=rs))
        e3 = run_episode(spec, Chooser(replay=ch.rec))
        d1, d2, d3 = e1.digest.hexdigest(), e2.digest.hexdigest(), e3.digest.hexdigest()
        if not (d1 == d2 == d3):
            errs.append("nondeterministic C17 episode seed %d: %s %s %s" % (rs, d1, d2, d3))
        items.append({"spec": spec, "choices": list(ch.rec), "digest": d1})
    fresh, err = flow.fresh_digests(PROP, [{"spec": it["spec"], "choices": it["choices"]} for it in items], 5 + job["seed"] % 7)
    if err:
        errs.append(err)
    else:
        bad = [i for i, (it, d) in enumerate(zip(items, fresh)) if it["digest"] != d]
        if bad:
            errs.append("fresh interpreter under another PYTHONHASHSEED gave different event logs for items %r" % bad[:5])
    return errs, len(items)


RULE = ("one evaluation = one analysis (real osaca.osaca.run in a simulated process with a private package copy) inside "
        "a generated history of 2-10 operations on a simulated machine (run groups of 1-4 racing processes with "
        "crash / ENOSPC / EIO / EACCES faults at chosen file-system events of the cache write, model edits, planted "
        "truncated / foreign-version / valid caches, read-only data dir, wipes, user-dir shadowing, machine crash, "
        "long-lived processes), compared with a cache-less reference; plus a systematic sweep of the crash point over "
        "every mutation event of the cache write (single and racing writer).  distinct non-trivial = distinct "
        "(history shape, event-log digest) among episodes in which a fault fired or that have more than two operations")
ASSUMPTIONS = [
    "the machine-crash model is the standard pessimistic one: data not fsynced may be cut to any prefix, renames persist",
    "model YAML files are trimmed to the forms the kernel corpus uses in the 'tiny' configuration; ISA files are "
    "always trimmed (corpus forms + 10 others); shipped small models are used untrimmed in the 'shipped-model' batches",
    "no bit flips inside cache files and no short writes at the Python file-object layer are injected (C17 promises "
    "robustness to interrupted and racing writes, not to media corruption)",
    "process-private state = private copy of the osaca package; third-party libraries are shared between simulated processes",
    "processes in one run group analyse while no edit happens; edits, plants, wipes happen only while no process runs "
    "(except between the analyses of a long-lived process, which is parked at that moment)",
]
COMPONENTS = {
    "real": ["osaca.osaca.run / inspect", "MachineModel (YAML load, _get_cached, _write_in_cache, pickle)", "utils.find_datafile",
             "parsers, ISASemantics, ArchSemantics, KernelDG (sequential branch), Frontend (lazy model load)"],
    "stub": ["file system calls below the episode root: io.open/builtins.open, os.open/close/write, os.stat/lstat/access/"
             "mkdir/replace/rename/unlink/fsync/listdir -> SimFS over real files (fault + scheduling point per call, "
             "per write chunk)", "os.getpid", "process = thread with private copy of the osaca package"],
}


def check(tier, seed, fingerprint, t0):
    from . import flow
    return flow.standard_check(
        PROP, tier, seed, fingerprint, t0, archs=[], worker_init=worker_init, build_jobs=build_jobs,
        run_job=run_job, shrink_job=shrink_job, rule=RULE, assumptions=ASSUMPTIONS, components=COMPONENTS,
        determinism=(build_det_jobs, det_job), isa_files=())
