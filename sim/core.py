"""Deterministic simulator core: choice sequence, baton-passing tasks, discrete-event clock,
line-trace pre-emption, simulated kill.

Exactly one task (a real thread) runs at any moment.  A task gives up the baton only at
simulator-owned points (`yield_`, `wait_until`, task exit, traced line slices).  Every
decision is `Sim.choose(n, tag)`; choice 0 is always the most boring alternative.
Nothing in here reads a real clock or draws from any PRNG other than the chooser's.
"""
import hashlib
import os
import random
import sys
import threading

_ctx = threading.local()  # _ctx.task = Task currently executing in this thread (or absent)


def current_task():
    return getattr(_ctx, "task", None)


def current_sim():
    t = getattr(_ctx, "task", None)
    return t.sim if t is not None else None


class SimKilled(BaseException):
    """Delivered to a simulated process that received SIGKILL / crashed."""


class SimAbort(BaseException):
    """Delivered to every parked task when a run is torn down (cap hit, invariant abort)."""


class HarnessError(Exception):
    """Something is wrong with the simulator or its use, never a property violation."""


class UnsupportedSeam(HarnessError):
    pass


class InvariantViolation(Exception):
    def __init__(self, cls, detail):
        Exception.__init__(self, "%s: %s" % (cls, detail))
        self.cls, self.detail = cls, detail


# ------------------------------------------------------------------ choosers
class Chooser:
    """PRNG-driven or replaying source of choices.  Records everything it hands out."""

    def __init__(self, seed=None, replay=None):
        self.rng = random.Random(seed) if replay is None else None
        self.replay = list(replay) if replay is not None else None
        self.pos = 0
        self.rec = []
        self.tags = []

    def choose(self, n, tag=""):
        if n <= 1:
            return 0
        if self.replay is not None:
            if self.pos < len(self.replay):
                v = int(self.replay[self.pos]) % n
            else:
                v = 0
            self.pos += 1
        else:
            v = self.rng.randrange(n)
        self.rec.append(v)
        self.tags.append(tag)
        return v

    def weighted(self, weights, tag=""):
        """Choice with integer weights; value 0 is still the first alternative."""
        total = sum(weights)
        r = self.choose(total, tag)
        # map so that r == 0 -> alternative 0
        acc = 0
        for i, w in enumerate(weights):
            acc += w
            if r < acc:
                return i
        return len(weights) - 1


def derive_seed(*parts):
    h = hashlib.sha256(("/".join(str(p) for p in parts)).encode()).digest()
    return int.from_bytes(h[:8], "big")


# ------------------------------------------------------------------ tasks
class Task:
    __slots__ = (
        "sim", "name", "fn", "sem", "ready_at", "done", "killed", "blocked_on", "thread",
        "exc", "lines", "line_cost", "trace", "proc", "kind", "exit_status", "slices",
        "traced_any", "parked_at", "attrs",
    )

    def __init__(self, sim, name, fn):
        self.sim, self.name, self.fn = sim, name, fn
        self.sem = threading.Semaphore(0)
        self.ready_at = 0.0
        self.done = False
        self.killed = False
        self.blocked_on = None
        self.thread = None
        self.exc = None
        self.lines = 0
        self.line_cost = 0.0
        self.trace = False
        self.proc = None  # owning simulated process object, if any
        self.kind = "task"
        self.exit_status = None
        self.slices = 0
        self.traced_any = False
        self.parked_at = ""
        self.attrs = {}


TRACE_SLICE = 50
_HARNESS_DIR = os.path.dirname(os.path.abspath(__file__))


class Preempt:
    """Pre-emption points inside pure-Python search code, via sys.monitoring LINE events that
    are enabled only on the code objects of the path enumeration (networkx simple_paths) and of
    every function used as a simulated process target.  Every TRACE_SLICE line events the
    running task yields and is charged TRACE_SLICE * line_cost simulated seconds; a pending
    SIGKILL is delivered by raising SimKilled from the callback.  If searching tasks finish
    without a single line event (the enumeration was replaced by code we do not know), the
    filter widens to every frame outside the harness for the rest of the batch."""

    TOOL = 3
    installed = False
    wide = False
    codes = {}  # id(code) -> code (code objects compare by value, so identity is the key)

    @classmethod
    def install(cls):
        if cls.installed:
            return
        mon = sys.monitoring
        mon.use_tool_id(cls.TOOL, "osaca-verif-sim")
        mon.register_callback(cls.TOOL, mon.events.LINE, cls._on_line)
        cls.installed = True

    @classmethod
    def add_code(cls, code):
        import types
        if not cls.installed:
            cls.install()
        if id(code) in cls.codes:
            return
        cls.codes[id(code)] = code
        sys.monitoring.set_local_events(cls.TOOL, code, sys.monitoring.events.LINE)
        for c in code.co_consts:
            if isinstance(c, types.CodeType):
                cls.add_code(c)

    @classmethod
    def add_function(cls, fn):
        fn = getattr(fn, "__func__", fn)
        seen = 0
        while fn is not None and seen < 8:
            code = getattr(fn, "__code__", None)
            if code is not None:
                cls.add_code(code)
            fn = getattr(fn, "__wrapped__", None) or getattr(fn, "orig_func", None)
            seen += 1

    @classmethod
    def add_module_functions(cls, mod):
        import gc
        import types
        fname = getattr(mod, "__file__", None)
        if not fname:
            return 0
        n = 0
        for o in gc.get_objects():
            if isinstance(o, types.FunctionType) and o.__code__.co_filename == fname:
                cls.add_code(o.__code__)
                n += 1
        return n

    @classmethod
    def widen(cls):
        if not cls.wide:
            cls.wide = True
            sys.monitoring.set_events(cls.TOOL, sys.monitoring.events.LINE)

    @staticmethod
    def _on_line(code, line):
        t = getattr(_ctx, "task", None)
        if t is None or not t.trace:
            return None
        if Preempt.wide and id(code) not in Preempt.codes:
            fn = code.co_filename
            if fn.startswith(_HARNESS_DIR) or fn.startswith("<") or fn.endswith("threading.py"):
                return sys.monitoring.DISABLE
        t.lines += 1
        if t.lines % TRACE_SLICE == 0:
            t.slices += 1
            t.sim.yield_(TRACE_SLICE * t.line_cost, "")
        return None


class Sim:
    def __init__(self, chooser, max_steps=200000, max_now=1e7):
        self.ch = chooser
        self.now = 0.0
        self.tasks = []
        self.cur = None
        self.log = []
        self.steps = 0
        self.max_steps = max_steps
        self.max_now = max_now
        self.aborting = False
        self.abort_reason = None
        self.violation = None  # InvariantViolation raised by an invariant hook
        self.invariants = []  # callables(sim) run at every context switch; may raise InvariantViolation
        self.main_sem = threading.Semaphore(0)
        self.result = None
        self.switches = 0
        self.stats = {}
        self.switch_hooks = []  # callables(task) run in the thread that receives the baton
        self.stop_when_main_exits = True
        self.left_running = []
        self.sticky = 1  # weight of "current task continues" among same-instant candidates

    # ---- choices / log ---------------------------------------------------
    def choose(self, n, tag=""):
        return self.ch.choose(n, tag)

    def ev(self, *a):
        self.log.append((round(self.now, 9), self.cur.name if self.cur else "-") + a)

    def count(self, key, n=1):
        self.stats[key] = self.stats.get(key, 0) + n

    def digest(self):
        h = hashlib.sha1()
        for e in self.log:
            h.update(repr(e).encode())
            h.update(b"\n")
        return h.hexdigest()

    def schedule_digest(self):
        """Digest of the order of context switches and faults only (distinct-interleaving measure)."""
        h = hashlib.sha1()
        for e in self.log:
            if len(e) > 2 and e[2] in ("sw", "FAULT", "kill", "exit", "apply"):
                h.update(repr(e[1:]).encode())
        return h.hexdigest()

    # ---- tasks -----------------------------------------------------------
    def spawn(self, name, fn, trace=False, line_cost=0.0, kind="task", delay=0.0):
        t = Task(self, name, fn)
        t.ready_at = self.now + delay
        t.trace = trace
        t.line_cost = line_cost
        t.kind = kind

        def body():
            t.sem.acquire()
            _ctx.task = t
            for h in self.switch_hooks:
                h(t)
            try:
                if self.aborting:
                    raise SimAbort()
                if t.killed:
                    raise SimKilled()
                fn()
                t.exit_status = "ok"
            except SimKilled:
                t.exit_status = "killed"
            except SimAbort:
                t.exit_status = "aborted"
            except InvariantViolation as e:
                t.exit_status = "violation"
                if self.violation is None:
                    self.violation = e
                self._request_abort("invariant")
            except HarnessError as e:
                t.exit_status = "harness"
                t.exc = e
                self._request_abort("harness:%s" % e)
            except BaseException as e:  # the simulated process died with a Python exception
                t.exit_status = "error"
                t.exc = e
            finally:
                t.done = True
                _ctx.task = None
                if not self.aborting and t is getattr(self, "main_task", None) and self.stop_when_main_exits:
                    # the analysis has returned; whatever still runs was left behind (recorded), and
                    # simulating it further would only burn steps
                    self.ev("exit", t.exit_status)
                    self.left_running = [x.name for x in self.tasks if not x.done and x.kind != "daemon"]
                    if self.left_running:
                        self.ev("left-running", tuple(self.left_running))
                        self._request_abort("main_done")
                if not self.aborting:
                    if t is not getattr(self, "main_task", None) or not self.stop_when_main_exits:
                        self.ev("exit", t.exit_status)
                    try:
                        self._switch(None)
                    except (SimAbort, SimKilled):
                        pass
                else:
                    self._wake_driver()

        t.thread = threading.Thread(target=body, name="sim-" + name, daemon=True)
        self.tasks.append(t)
        t.thread.start()
        return t

    def _wake_driver(self):
        self.main_sem.release()

    def _request_abort(self, reason):
        if not self.aborting:
            self.aborting = True
            self.abort_reason = reason

    def _runnable(self):
        rs = []
        for t in self.tasks:
            if t.done:
                continue
            if t.killed or t.blocked_on is None or t.blocked_on():
                rs.append(t)
        return rs

    def _pick(self):
        rs = self._runnable()
        if not rs:
            return None
        tmin = min(t.ready_at for t in rs)
        horizon = max(tmin, self.now)
        cands = [t for t in rs if t.ready_at <= horizon]
        if len(cands) > 1:
            # choice 0 = the boring alternative: the current task continues if it can
            if self.cur in cands:
                cands.remove(self.cur)
                cands.insert(0, self.cur)
                k = self.sticky
            else:
                k = 1
            r = self.choose(len(cands) + k - 1, "sched")
            nxt = cands[0] if r < k else cands[r - k + 1]
        else:
            nxt = cands[0]
        if nxt.ready_at > self.now:
            self.now = nxt.ready_at
        return nxt

    def _switch(self, me):
        """Hand the baton on.  Runs in the yielding thread; parks `me` until rescheduled."""
        self.steps += 1
        if not self.aborting:
            if self.steps > self.max_steps:
                self._request_abort("max_steps")
            elif self.now > self.max_now:
                self._request_abort("max_now")
            else:
                try:
                    for inv in self.invariants:
                        inv(self)
                except InvariantViolation as e:
                    if self.violation is None:
                        self.violation = e
                    self._request_abort("invariant")
        if self.aborting:
            if me is not None:
                raise SimAbort()
            self._wake_driver()
            return
        nxt = self._pick()
        if nxt is None:
            self.cur = None
            self._wake_driver()
            if me is not None:
                me.sem.acquire()
                self._resumed(me)
            return
        if nxt is me:
            return
        self.switches += 1
        self.cur = nxt
        self.ev("sw", nxt.name)
        nxt.sem.release()
        if me is not None:
            me.sem.acquire()
            self._resumed(me)

    def _resumed(self, me):
        self.cur = me
        for h in self.switch_hooks:
            h(me)
        if self.aborting:
            raise SimAbort()
        if me.killed:
            raise SimKilled()

    def check_alive(self):
        """Called at the start of every simulated OS operation."""
        t = current_task()
        if t is None:
            return
        if self.aborting:
            raise SimAbort()
        if t.killed:
            raise SimKilled()

    def yield_(self, cost=0.0, what=""):
        me = current_task()
        if me is None or me.sim is not self:
            raise HarnessError("yield_ outside a task of this simulation")
        self.check_alive()
        me.ready_at = self.now + cost
        me.parked_at = what
        if what:
            self.ev("y", what)
        self._switch(me)
        me.parked_at = ""

    def wait_until(self, pred, what=""):
        me = current_task()
        self.check_alive()
        if pred():
            # still a scheduling point
            self.yield_(0.0, what)
            return
        me.blocked_on = pred
        me.ready_at = self.now
        me.parked_at = what
        if what:
            self.ev("w", what)
        try:
            self._switch(me)
        finally:
            me.blocked_on = None
            me.parked_at = ""
        if me.ready_at < self.now:
            me.ready_at = self.now

    def kill(self, victim, why="kill"):
        """SIGKILL: the victim does nothing more; it unwinds when next scheduled."""
        if victim.done or victim.killed:
            return False
        victim.killed = True
        victim.ready_at = self.now
        victim.attrs["killed_at"] = victim.parked_at
        victim.attrs["killed_started"] = victim.slices > 0 or victim.lines > 0 or bool(victim.parked_at)
        self.ev("kill", victim.name, why, victim.parked_at.split(":")[0] if victim.parked_at else
                ("search" if victim.trace else "start"))
        return True

    # ---- driving a run -----------------------------------------------------
    def run(self, main_fn, name="parent", trace=False, line_cost=0.0):
        def m():
            self.result = main_fn()

        t = self.spawn(name, m, trace=trace, line_cost=line_cost)
        self.main_task = t
        self.cur = t
        t.sem.release()
        self.main_sem.acquire()
        live = [x for x in self.tasks if not x.done and x.kind != "daemon"]
        self.deadlock = bool(live) and not self.aborting
        if self.deadlock:
            self.ev("deadlock", tuple((x.name, x.parked_at) for x in live))
        self._teardown()
        return self.result

    def _teardown(self):
        self.aborting = True
        for t in self.tasks:
            if not t.done:
                t.sem.release()
                # the task raises SimAbort at its park point, unwinds, and wakes the driver
                self.main_sem.acquire()
            t.thread.join()
        # drain surplus wake-ups
        while self.main_sem.acquire(blocking=False):
            pass
