"""Where the code under test and its data come from.

* `VERIF_REPO` (default /repo) is put first on sys.path: checks import the working tree.
* Model/ISA YAML files are copied from that tree into a scratch directory per check run;
  `osaca.utils.DATA_DIRS` / `CACHE_DIR` are pointed there, so the git-ignored pickles lying
  in /repo/osaca/data are neither read nor written.  Caches in the scratch directory are
  built by the real code from the current tree at the start of the check.
"""
import atexit
import hashlib
import os
import shutil
import subprocess
import sys
import tempfile

REPO = os.path.abspath(os.environ.get("VERIF_REPO", "/repo"))
VERIF = os.path.dirname(os.path.dirname(os.path.abspath(__file__)))
PY = sys.executable

X86_SMALL = ["zen1"]
ARM_SMALL = ["n1", "tx2", "a64fx", "tsv110"]
X86_ALL = ["zen1", "zen2", "zen3", "zen4", "spr", "icx", "hsw", "snb", "ivb", "icl"]
ARM_ALL = ["n1", "tx2", "a64fx", "tsv110", "a72", "m1", "v2"]
EMPTY_MODELS = ["bdw", "csx", "skx"]  # emptied in this tree


def isa_of(arch):
    return "x86" if arch.lower() in X86_ALL + EMPTY_MODELS else "aarch64"


def use_repo():
    """Make `import osaca` resolve to VERIF_REPO (also shadows the editable install)."""
    if sys.path[0] != REPO:
        sys.path.insert(0, REPO)
    for k in list(sys.modules):
        if k == "osaca" or k.startswith("osaca."):
            m = sys.modules[k]
            f = getattr(m, "__file__", "") or ""
            if not os.path.abspath(f).startswith(REPO + os.sep):
                del sys.modules[k]


def repo_fingerprint():
    h = hashlib.sha256()
    base = os.path.join(REPO, "osaca")
    for root, dirs, files in os.walk(base):
        dirs.sort()
        if "data" in dirs and root == base:
            dirs.remove("data")
        for f in sorted(files):
            if f.endswith(".py"):
                p = os.path.join(root, f)
                h.update(os.path.relpath(p, base).encode())
                h.update(open(p, "rb").read())
    try:
        head = subprocess.run(["git", "-C", REPO, "rev-parse", "HEAD"], capture_output=True,
                              text=True, timeout=20).stdout.strip()
    except Exception:
        head = ""
    return {"repo_head": head, "osaca_py_sha256": h.hexdigest()}


_scratch_dirs = []


def _cleanup():
    for d in _scratch_dirs:
        shutil.rmtree(d, ignore_errors=True)


atexit.register(_cleanup)


def scratch_parent():
    for cand in ("/dev/shm", os.environ.get("TMPDIR"), "/var/tmp", tempfile.gettempdir()):
        if cand and os.path.isdir(cand) and os.access(cand, os.W_OK):
            return cand
    return tempfile.gettempdir()


def make_scratch(prefix="osaca-verif-"):
    d = tempfile.mkdtemp(prefix="%sp%d-" % (prefix, os.getpid()), dir=scratch_parent())
    _scratch_dirs.append(d)
    return d


def cleanup_stale():
    """Remove scratch directories left by checks whose process no longer exists (killed runs)."""
    import re
    parent = scratch_parent()
    try:
        names = os.listdir(parent)
    except OSError:
        return
    for n in names:
        m = re.match(r"osaca-verif-.*?p(\d+)-", n)
        if not m:
            continue
        pid = int(m.group(1))
        if pid == os.getpid():
            continue
        try:
            os.kill(pid, 0)
            alive = True
        except ProcessLookupError:
            alive = False
        except PermissionError:
            alive = True
        if not alive:
            shutil.rmtree(os.path.join(parent, n), ignore_errors=True)


def remove_scratch(d):
    shutil.rmtree(d, ignore_errors=True)
    if d in _scratch_dirs:
        _scratch_dirs.remove(d)


def build_data_dir(root, archs, isa_files=("x86", "aarch64")):
    """Copy model YAMLs of `archs` and the ISA files from the working tree into root/data."""
    data = os.path.join(root, "data")
    os.makedirs(os.path.join(data, "isa"), exist_ok=True)
    src = os.path.join(REPO, "osaca", "data")
    for a in archs:
        shutil.copyfile(os.path.join(src, a + ".yml"), os.path.join(data, a + ".yml"))
    for i in isa_files:
        shutil.copyfile(os.path.join(src, "isa", i + ".yml"), os.path.join(data, "isa", i + ".yml"))
    os.makedirs(os.path.join(root, "home", ".osaca", "cache"), exist_ok=True)
    return data


def point_osaca_at(root, utils_mod=None):
    if utils_mod is None:
        import osaca.utils as utils_mod
    utils_mod.DATA_DIRS = [os.path.join(root, "data")]
    utils_mod.CACHE_DIR = os.path.join(root, "home", ".osaca", "cache")


def _warm_one(args):
    root, arch_or_isa, is_isa = args
    use_repo()
    import osaca.utils as u
    point_osaca_at(root, u)
    from osaca.semantics import MachineModel
    if is_isa:
        MachineModel(path_to_yaml=os.path.join(root, "data", "isa", arch_or_isa + ".yml"))
    else:
        MachineModel(arch=arch_or_isa)
    return arch_or_isa


def warm_caches(root, archs, isa_files=("x86", "aarch64"), workers=16):
    """Build the scratch caches with the real loader of the current tree (parallel)."""
    from concurrent.futures import ProcessPoolExecutor
    import multiprocessing as mp
    jobs = [(root, a, False) for a in archs] + [(root, i, True) for i in isa_files]
    if not jobs:
        return
    ctx = mp.get_context("fork")
    with ProcessPoolExecutor(max_workers=min(workers, len(jobs)), mp_context=ctx) as ex:
        list(ex.map(_warm_one, jobs))
