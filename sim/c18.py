"""C18 — analyses are independent of what was analysed before in the same process.

One long-lived simulated process (fresh copy of the osaca package) issues a generated history of
`osaca.osaca.run(args, output_file)` calls; every element is compared with the report of a
*fresh real subprocess* for the same configuration (reference model), and a fresh in-process
package copy is used as a second reference that must agree with the first.
"""
import hashlib
import io
import json
import os
import random
import subprocess
import sys

from . import core, procs, isolate, env, batch, corpus, fs as fsmod
from .core import Sim, Chooser, derive_seed, current_task

PROP = "C18"
CTX = {"root": None, "corpus": None, "refs": None}
REF_DRIVER = os.path.join(os.path.dirname(os.path.abspath(__file__)), "ref_driver.py")


def worker_init(root):
    CTX["root"] = root
    procs.install()
    env.use_repo()
    import osaca.utils as u
    env.point_osaca_at(root, u)
    import osaca.osaca  # noqa
    core.Preempt.install()


# ------------------------------------------------------------------ corpus of configurations
GEN_X86 = {
    "rmw_mem": "\taddq\t$1, 8(%rax)\n\tvaddpd\t16(%rbx), %ymm0, %ymm1\n\taddl\t%ecx, (%rdx)\n\tvmovapd\t%ymm1, 32(%rbx)\n\taddq\t$8, %rax\n\tjne\t.L1\n",
    "depbreak": "\tvxorpd\t%xmm0, %xmm0, %xmm0\n\txorl\t%eax, %eax\n\tvaddpd\t%xmm0, %xmm1, %xmm1\n\tpxor\t%xmm2, %xmm2\n\tsubq\t%rbx, %rbx\n\taddq\t$1, %rcx\n\tjne\t.L1\n",
    "unknown": "\tvaddpd\t%xmm0, %xmm1, %xmm0\n\tfrobnicate\t%xmm0, %xmm1\n\tvfoo\t8(%rax), %ymm3\n\taddq\t$8, %rax\n\tjne\t.L1\n",
    "alt_ports": "\tvmulpd\t%ymm0, %ymm1, %ymm2\n\tvfmadd231pd\t%ymm2, %ymm3, %ymm4\n\tvdivpd\t%ymm4, %ymm5, %ymm6\n\timulq\t%rax, %rbx\n\tshlq\t$2, %rcx\n\tvmovapd\t(%rsi,%rax,8), %ymm7\n\tvmovapd\t%ymm7, (%rdi,%rax,8)\n\tcmpq\t%rax, %rcx\n\tjb\t.L1\n",
    "storeload": "\tvmovsd\t%xmm0, 8(%rax)\n\tvmovsd\t8(%rax), %xmm1\n\tvaddsd\t%xmm1, %xmm2, %xmm0\n\tmovq\t%rax, %rbx\n\tvmovsd\t(%rbx), %xmm3\n\taddq\t$8, %rax\n\tjne\t.L1\n",
    "empty_operands": "\tnop\n\tvzeroupper\n\tcltq\n\taddq\t$8, %rax\n\tjne\t.L1\n",
    # no vector registers and hex displacements: BaseParser.detect_ISA takes it for AArch64 ('0x10' ~ 'x1'),
    # so an analysis without --arch goes through the wrong-parser retry
    "misdetected": "\tmovq\t0x10(%rsi,%rax,8), %rdx\n\taddq\t%rdx, %rcx\n\tmovq\t%rcx, 0x18(%rdi,%rax,8)\n\taddq\t$1, %rax\n\tcmpq\t%rax, %r8\n\tjne\t.L1\n",
    # unparsable by both parsers: without --arch both attempts fail
    "garbage": "\t@@@ ??? !!!\n\t)(*&^ %$#\n",
    # a zoo of less common syntax: high-byte registers meeting their low byte, segment override,
    # rip-relative addressing, hex immediate, lock prefix, cmov
    "zoo": "\tmovb\t(%rdi,%rcx), %al\n\taddb\t%al, %ah\n\tmovzbl\t%ah, %edx\n\tmovq\t%fs:0x28, %rbx\n\tleaq\t.LC0(%rip), %rsi\n"
           "\tmovl\t$0xff, %r9d\n\tlock addq\t$1, (%rdi)\n\tshlq\t$2, %rcx\n\tcmovne\t%rdx, %rbx\n\tincq\t%rcx\n\tcmpq\t$64, %rcx\n\tjne\t.L1\n",
}
GEN_ARM = {
    "prepost": "\tldr\td0, [x1], #8\n\tldr\td1, [x2, #8]!\n\tstr\td0, [x3], #8\n\tldp\tq4, q5, [x9], #64\n\tstp\tq4, q5, [x10, #-32]!\n\tfadd\td2, d0, d1\n\tsubs\tx4, x4, #1\n\tb.ne\t.L1\n",
    "rmw_mem": "\tldr\tq0, [x1, x3]\n\tfmla\tv0.2d, v1.2d, v2.2d\n\tstr\tq0, [x1, x3]\n\tldr\tq1, [x1, x3]\n\tadd\tx3, x3, #16\n\tcmp\tx3, x4\n\tb.ne\t.L1\n",
    "unknown": "\tfadd\td0, d0, d1\n\tfrobnicate\td0, d1\n\tfoo\tx1, [x2]\n\tadd\tx3, x3, #8\n\tb.ne\t.L1\n",
    "alt_ports": "\tfmul\tv0.2d, v1.2d, v2.2d\n\tfdiv\tv3.2d, v0.2d, v4.2d\n\tmul\tx1, x2, x3\n\tlsl\tx4, x5, #2\n\tfmadd\td5, d6, d7, d5\n\tmov\tx6, x7\n\tcmp\tx6, x8\n\tb.lt\t.L1\n",
    "sve": "\tld1d\t{z0.d}, p0/z, [x0, x3, lsl #3]\n\tfmla\tz1.d, p0/m, z0.d, z2.d\n\tst1d\t{z1.d}, p0, [x1, x3, lsl #3]\n\tincd\tx3\n\twhilelo\tp0.d, x3, x4\n\tb.first\t.L1\n",
    "depbreak": "\teor\tx0, x0, x0\n\tmovi\tv0.2d, #0\n\tfadd\td1, d0, d1\n\tadd\tx1, x1, #1\n\tb.ne\t.L1\n",
    # a comment full of x86 register names: detect_ISA takes it for x86, the retry path parses it as AArch64
    "misdetected": "\tldr\td0, [x1], #8\n\tfadd\td2, d0, d1\n\t// %xmm0 %xmm1 %xmm2 %xmm3 %xmm4 %xmm5\n\tsubs\tx4, x4, #1\n\tb.ne\t.L1\n",
    # a zoo of less common syntax: register lists and ranges, shifted and extended registers, condition
    # codes, lane indices, hex immediates
    "zoo": "\tld1\t{v0.2d, v1.2d}, [x0], #32\n\tst1\t{v2.4s-v3.4s}, [x1]\n\tadd\tx2, x3, x4, lsl #3\n\tadd\tx5, x6, w7, sxtw #2\n"
           "\tcsel\tx8, x9, x10, ne\n\tfmla\tv4.2d, v5.2d, v6.d[1]\n\tldr\tq7, [x11, x12, lsl #4]\n\tmov\tx13, #0x10\n\tsubs\tx14, x14, #1\n\tb.ne\t.L1\n",
}


def build_corpus(tier, root):
    """Writes kernel files under root/kernels and returns the list of configurations (argv lists
    with a class label)."""
    kd = os.path.join(root, "kernels")
    os.makedirs(kd, exist_ok=True)
    shipped = corpus.shipped_kernels()
    files = []
    for name, isa, text in shipped:
        if "long_LCD" in name:
            continue
        fn = os.path.join(kd, name.replace("/", "__"))
        open(fn, "w").write(text)
        files.append((fn, isa, "shipped"))
    for k, text in GEN_X86.items():
        fn = os.path.join(kd, "gen_x86_%s.s" % k)
        open(fn, "w").write(text)
        files.append((fn, "x86", "gen:" + k))
    for k, text in GEN_ARM.items():
        fn = os.path.join(kd, "gen_arm_%s.s" % k)
        open(fn, "w").write(text)
        files.append((fn, "aarch64", "gen:" + k))
    xa, aa = archs_split(tier)
    rng = random.Random(18)
    configs = []
    for fn, isa, label in files:
        archs = xa if isa == "x86" else aa
        base = os.path.basename(fn)
        if tier == "quick" and label == "shipped" and "test_files" not in base:  # (generated kernels keep all archs)
            archs = [archs[hash_idx(base, len(archs))], archs[hash_idx(base + "x", len(archs))]]
        for a in sorted(set(archs)):
            opt_sets = [[], ["--fixed"], ["-f"], ["--ignore-unknown"], ["--fixed", "-f"], ["-v"], ["--lcd-timeout", "-1"]]
            if tier == "quick":
                opt_sets = [opt_sets[0], opt_sets[1 + hash_idx(base + a, 6)]]
            for opts in opt_sets:
                configs.append({"argv": ["--arch", a] + opts + [fn], "isa": isa, "arch": a, "label": label,
                                "kernel": base, "fixed": "--fixed" in opts})
        # default-architecture path (no --arch): includes the wrong-parser retry
        configs.append({"argv": [fn], "isa": isa, "arch": None, "label": label, "kernel": base, "fixed": False})
        if label == "shipped" and ("kernel_x86.s" in base or "kernel_aarch64.s" in base):
            configs.append({"argv": ["--arch", archs[0], "--lines", "3-6,8", fn], "isa": isa, "arch": archs[0],
                            "label": label + ":lines", "kernel": base, "fixed": False})
    # wrong ISA on purpose: an analysis that (probably) raises is a legitimate history element
    for fn, isa, label in files[:2] + [f for f in files if f[2].startswith("gen:unknown")]:
        other = aa[0] if isa == "x86" else xa[0]
        configs.append({"argv": ["--arch", other, fn], "isa": "x86" if isa != "x86" else "aarch64", "arch": other,
                        "label": "wrong-isa", "kernel": os.path.basename(fn), "fixed": False})
    for i, c in enumerate(configs):
        c["id"] = i
    return configs


def hash_idx(s, n):
    return int(hashlib.sha1(s.encode()).hexdigest(), 16) % n


def archs_split(tier):
    if tier == "quick":
        return ["zen1", "spr", "icx"], ["tx2", "n1", "a64fx", "v2"]
    return ["zen1", "zen2", "zen3", "zen4", "spr", "icx", "hsw", "snb", "ivb", "icl"], \
           ["tx2", "n1", "a64fx", "tsv110", "a72", "m1", "v2"]


def archs_for(tier):
    xa, aa = archs_split(tier)
    return sorted(set(xa + aa + ["spr", "v2"]))


# ------------------------------------------------------------------ references
def ref_job(job):
    """Fresh real subprocess per configuration."""
    out = {}
    root = CTX["root"]
    for c in job["configs"]:
        envv = dict(os.environ, VERIF_SCRATCH_ROOT=root, VERIF_REPO=env.REPO, PYTHONHASHSEED="0")
        p = subprocess.run([sys.executable, REF_DRIVER, json.dumps(c["argv"])], capture_output=True, text=True,
                           timeout=600, env=envv)
        if p.returncode != 0 or not p.stdout.startswith("REPORT\n"):
            out[str(c["id"])] = {"harness_error": "reference driver rc=%d: %s" % (p.returncode, (p.stderr or p.stdout)[-500:])}
        else:
            out[str(c["id"])] = {"report": p.stdout[len("REPORT\n"):]}
    return out


def one_analysis(o, argv, root=None):
    """The entry point embedders use, exceptions rendered as text."""
    args = None
    buf = io.StringIO()
    try:
        p = o.create_parser()
        args = p.parse_args(argv)
        o.check_arguments(args, p)
        o.run(args, output_file=buf)
        s = buf.getvalue()
    except (core.SimKilled, core.SimAbort, core.HarnessError):
        raise
    except SystemExit as e:
        s = "EXC SystemExit: %r" % (e.code,)
    except BaseException as e:
        s = "EXC %s: %s" % (type(e).__name__, str(e)[:300])
    finally:
        try:
            if args is not None and getattr(args, "file", None) is not None:
                args.file.close()
        except Exception:
            pass
    s = "\n".join(l for l in s.split("\n") if not l.startswith("Timestamp:"))
    return s.replace(root, "<root>") if root else s


def run_history(root, argvs, chooser):
    """All analyses of `argvs` in ONE simulated process (one fresh package copy).  Returns reports."""
    sim = Sim(chooser, max_steps=2000000)
    sim.sticky = 8
    # no deadline may ever strike inside a history (the fresh-process reference runs in real time, where
    # these searches take milliseconds): searching costs (almost) no simulated time here
    procs.World(sim, ncpu=4, speeds=(1e-8,), start_delays=(0.0, 0.0, 1e-6), rtt=0.0)
    reports = []

    def body():
        t = current_task()
        mods = isolate.fresh_osaca([os.path.join(root, "data")], os.path.join(root, "home", ".osaca", "cache"))
        t.attrs["mods"] = mods
        sys.modules.update(mods)
        o = mods["osaca.osaca"]
        for argv in argvs:
            reports.append(one_analysis(o, argv, root))
            sim.ev("analysis", len(reports), hashlib.sha1(reports[-1].encode()).hexdigest()[:12])

    saved = isolate.snapshot()
    sim.switch_hooks.append(isolate.switch_hook)
    try:
        sim.run(body, name="longlived")
    finally:
        isolate.restore(saved)
    bad = next((t.exc for t in sim.tasks if t.exit_status == "harness"), None)
    if bad is not None:
        raise bad
    if sim.main_task.exc is not None:
        raise core.HarnessError("history process failed: %r" % (sim.main_task.exc,))
    if sim.abort_reason:
        raise core.HarnessError("history aborted: %s" % sim.abort_reason)
    return reports, sim


# ------------------------------------------------------------------ histories
def gen_history(rng, configs, tier):
    """2..12 configuration ids, biased towards the adversarial shapes."""
    n = rng.randint(2, 8 if tier == "quick" else 12)
    by_isa = {"x86": [c for c in configs if c["isa"] == "x86"], "aarch64": [c for c in configs if c["isa"] == "aarch64"]}
    h = [rng.choice(configs)]
    while len(h) < n:
        prev = h[-1]
        r = rng.random()
        if r < 0.18:
            nxt = prev  # same configuration twice
        elif r < 0.36:
            # same kernel on another model / with other options
            cand = [c for c in configs if c["kernel"] == prev["kernel"] and c["id"] != prev["id"]]
            nxt = rng.choice(cand) if cand else rng.choice(configs)
        elif r < 0.5:
            # same architecture, other kernel (shared model entries)
            cand = [c for c in configs if c["arch"] == prev["arch"] and c["kernel"] != prev["kernel"]]
            nxt = rng.choice(cand) if cand else rng.choice(configs)
        elif r < 0.62:
            cand = by_isa["x86" if prev["isa"] != "x86" else "aarch64"]  # ISA switch
            nxt = rng.choice(cand)
        elif r < 0.72:
            cand = [c for c in configs if c["label"] in ("wrong-isa",) or c["label"].startswith("gen:unknown")]
            nxt = rng.choice(cand) if cand else rng.choice(configs)
        elif r < 0.79:
            # default-architecture path twice in a row, the first one through the wrong-parser retry (or
            # failing in both parsers)
            first = [c for c in configs if c["arch"] is None and c["label"] in ("gen:misdetected", "gen:garbage")]
            second = [c for c in configs if c["arch"] is None]
            if first and second and len(h) + 2 <= n + 1:
                h.append(rng.choice(first))
                nxt = rng.choice(second)
            else:
                nxt = rng.choice(configs)
        elif r < 0.85:
            cand = [c for c in configs if c["label"].startswith("gen:")]
            nxt = rng.choice(cand)
        else:
            nxt = rng.choice(configs)
        h.append(nxt)
    return [c["id"] for c in h]


def judge_history(ids, reports, configs, refs):
    V = []
    seen = {}
    for pos, (cid, rep) in enumerate(zip(ids, reports)):
        ref = refs[str(cid)]
        if "harness_error" in ref:
            raise core.HarnessError(ref["harness_error"])
        c = configs[cid]
        if rep != ref["report"]:
            V.append({"property": PROP, "class": "differs_from_fresh_process", "site": "history",
                      "detail": "element %d (%s) of the history differs from the fresh-process report: %s"
                                % (pos, " ".join(os.path.basename(a) for a in c["argv"]), first_diff(ref["report"], rep)),
                      "facts": {"position": pos, "config": c["argv"][:-1] + [c["kernel"]]}})
            break
        if cid in seen and seen[cid] != rep:
            V.append({"property": PROP, "class": "same_config_differs_within_history", "site": "history",
                      "detail": "configuration %r gave two different reports in one history" % (c["argv"],),
                      "facts": {"position": pos}})
            break
        seen[cid] = rep
    return V


def first_diff(a, b):
    al, bl = a.split("\n"), b.split("\n")
    for i, (x, y) in enumerate(zip(al, bl)):
        if x != y:
            return "line %d: fresh process %r, in history %r" % (i, x[:150], y[:150])
    return "length differs (%d vs %d lines)" % (len(al), len(bl))


def load_refs():
    if CTX["refs"] is None:
        CTX["refs"] = json.load(open(os.path.join(CTX["root"], "c18_refs.json")))
        CTX["corpus"] = json.load(open(os.path.join(CTX["root"], "c18_corpus.json")))
    return CTX["corpus"], CTX["refs"]


def run_job(job):
    if job.get("kind") == "ref":
        return ref_job(job)
    agg = batch.Agg()
    configs, refs = load_refs()
    root = CTX["root"]
    if job.get("kind") == "isolation":
        # second reference: a fresh in-process package copy must agree with the fresh subprocess
        for cid in job["ids"]:
            reps, sim = run_history(root, [configs[cid]["argv"]], Chooser(seed=0))
            agg.runs += 1
            if "report" in refs[str(cid)] and reps[0] != refs[str(cid)]["report"]:
                agg.harness_errors.append("isolation stub: fresh in-process copy differs from fresh subprocess for %r: %s"
                                          % (configs[cid]["argv"], first_diff(refs[str(cid)]["report"], reps[0])))
            agg.notes["fresh_inprocess_copy_equals_fresh_subprocess"] += 1
        return agg.to_dict()
    todo = [(i, None) for i in range(job["first"], job["first"] + job["n"])]
    if job.get("id_lists"):
        todo = [(job["first"] + k, l) for k, l in enumerate(job["id_lists"])]
        agg.notes["directed_ABAB_histories"] += len(todo)
    for i, fixed_ids in todo:
        rs = derive_seed(job["seed"], PROP, i)
        ids = fixed_ids or job.get("ids") or gen_history(random.Random(rs), configs, job["tier"])
        ch = Chooser(seed=rs)
        reports, sim = run_history(root, [configs[c]["argv"] for c in ids], ch)
        V = judge_history(ids, reports, configs, refs)
        agg.runs += len(ids)
        agg.notes["histories"] += 1
        agg.digests.add(hashlib.sha1(repr(ids).encode()).hexdigest()[:16])
        agg.nontrivial.add(hashlib.sha1(repr(ids).encode()).hexdigest()[:16])
        prev = None
        for cid in ids:
            c = configs[cid]
            cls = "%s|%s|%s|%s" % (c["isa"], c["arch"], "fixed" if c["fixed"] else "opt", c["label"].split(":")[0])
            if prev is not None:
                agg.states.add(prev[0] + "->" + cls)
                pc = prev[1]
                if pc["id"] == c["id"]:
                    agg.probes["same_configuration_repeated"] += 1
                if pc["isa"] != c["isa"]:
                    agg.probes["isa_switch"] += 1
                if pc["kernel"] == c["kernel"] and pc["arch"] != c["arch"]:
                    agg.probes["same_kernel_other_model_adjacent"] += 1
                if pc["kernel"] == c["kernel"] and pc["fixed"] != c["fixed"]:
                    agg.probes["fixed_and_optimal_adjacent_on_same_kernel"] += 1
                if refs[str(pc["id"])].get("report", "").startswith("EXC"):
                    agg.probes["analysis_after_one_that_raised"] += 1
                if pc["arch"] == c["arch"] and pc["kernel"] != c["kernel"]:
                    agg.probes["same_model_other_kernel_adjacent"] += 1
            prev = (cls, c)
        if len(agg.samples) < 2:
            agg.samples.append({"history": [" ".join(configs[c]["argv"][:-1] + [configs[c]["kernel"]]) for c in ids]})
        for v in V:
            spec = {"property": PROP, "tier": job["tier"], "history": [configs[c]["argv"][:-1] + [configs[c]["kernel"]] for c in ids],
                    "ids": ids}
            v.update({"spec": spec, "choices": list(ch.rec), "verif_seed": job["seed"], "run_index": i,
                      "subcheck": "history", "event_log_sha1": sim.digest(), "event_log_tail": [repr(e) for e in sim.log[-20:]]})
            agg.violations.append(v)
        if len(agg.violations) > 20:
            break
    return agg.to_dict()


def prepare(tier, seed, root):
    """Corpus + fresh-subprocess references (phase 1), stored in the scratch root for the workers."""
    configs = build_corpus(tier, root)
    json.dump(configs, open(os.path.join(root, "c18_corpus.json"), "w"))
    per = max(1, len(configs) // 64)
    rjobs = [{"kind": "ref", "configs": configs[i:i + per]} for i in range(0, len(configs), per)]
    t = batch.real_now()
    res, errs = batch.run_pool(rjobs, ref_job, worker_init, (root,), wall_per_job=900)
    refs = {}
    for r in res:
        refs.update(r)
    if errs or len(refs) != len(configs):
        raise core.HarnessError("reference phase failed: %r" % (errs[:2],))
    bad = [v["harness_error"] for v in refs.values() if "harness_error" in v]
    if bad:
        raise core.HarnessError("reference driver failed: %s" % bad[0])
    json.dump(refs, open(os.path.join(root, "c18_refs.json"), "w"))
    nexc = sum(1 for v in refs.values() if v["report"].startswith("EXC"))
    print("%d configurations, fresh-subprocess references in %.1f s (%d of them raise)" % (len(configs), batch.real_now() - t, nexc), flush=True)
    return configs


def build_jobs(tier, seed):
    root = CTX["root"]
    configs = prepare(tier, seed, root)
    CTX["refs"] = None
    nh = 640 if tier == "quick" else 8000
    per = 10 if tier == "quick" else 40
    jobs = [{"first": f, "n": min(per, nh - f), "seed": seed, "tier": tier} for f in range(0, nh, per)]
    # directed histories A B A B: the same kernel alternately on two models of its ISA (state that a
    # memoised factory or a per-ISA singleton keeps from "the model seen last" shows on the third element)
    plain = {}
    for c in configs:
        if c["arch"] is not None and c["argv"][2:-1] == [] and not c["label"].startswith(("wrong", "shipped:lines")):
            plain.setdefault(c["kernel"], {})[c["arch"]] = c["id"]
    abab = []
    prng = random.Random(derive_seed(seed, PROP, "abab"))
    for kernel in sorted(plain):
        archs = sorted(plain[kernel])
        pairs = [(a, b) for a in archs for b in archs if a != b]
        if not kernel.startswith("gen_"):
            prng.shuffle(pairs)
            pairs = pairs[: (1 if tier == "quick" else 4)]
        for a, b in pairs:
            abab.append([plain[kernel][a], plain[kernel][b], plain[kernel][a], plain[kernel][b]])
    for i in range(0, len(abab), 8):
        jobs.append({"first": i, "n": 1, "seed": seed, "tier": tier, "id_lists": abab[i:i + 8]})
    rng = random.Random(derive_seed(seed, PROP, "iso"))
    ids = [c["id"] for c in configs]
    rng.shuffle(ids)
    k = 48 if tier == "quick" else len(ids)
    for i in range(0, k, 6):
        jobs.append({"kind": "isolation", "ids": ids[i:i + 6]})
    return jobs


def replay_once(spec, choices):
    root = CTX["root"]
    if not os.path.exists(os.path.join(root, "c18_corpus.json")) or CTX.get("prepared_tier") != spec["tier"]:
        prepare_for_replay(spec["tier"], root)
    configs, refs = load_refs()
    ch = Chooser(replay=choices)
    reports, sim = run_history(root, [configs[c]["argv"] for c in spec["ids"]], ch)
    return judge_history(spec["ids"], reports, configs, refs), sim.digest(), ch.rec


def prepare_for_replay(tier, root):
    env.build_data_dir(root, archs_for(tier))
    env.warm_caches(root, archs_for(tier))
    prepare(tier, 0, root)
    CTX["refs"] = None
    CTX["prepared_tier"] = tier


def shrink_job(job):
    from . import flow
    import copy

    def drop(spec):
        ids = spec["ids"]
        for i in range(len(ids) - 1):
            s = copy.deepcopy(spec)
            del s["ids"][i]
            del s["history"][i]
            yield s

    CTX["prepared_tier"] = job["v"]["spec"]["tier"]
    return flow.do_shrink(job["v"], replay_once, [drop])


def replay_file(doc):
    root = env.make_scratch()
    try:
        worker_init(root)
        vs, digest, rec = replay_once(doc["spec"], doc["choices"])
        return vs, digest
    finally:
        env.remove_scratch(root)


def digests_for(items):
    root = os.environ.get("VERIF_SCRATCH_ROOT")
    worker_init(root)
    CTX["prepared_tier"] = items[0]["spec"]["tier"] if items else None
    out = []
    for it in items:
        vs, digest, rec = replay_once(it["spec"], it["choices"])
        out.append(digest)
    return out


def build_det_jobs(tier, seed, root):
    n = 12 if tier == "quick" else 120
    per = 2 if tier == "quick" else 8
    return [{"first": f, "n": min(per, n - f), "seed": seed, "tier": tier, "root": root} for f in range(0, n, per)]


def det_job(job):
    from . import flow
    configs, refs = load_refs()
    CTX["prepared_tier"] = job["tier"]
    items, errs = [], []
    for i in range(job["first"], job["first"] + job["n"]):
        rs = derive_seed(job["seed"], PROP, "det", i)
        ids = gen_history(random.Random(rs), configs, job["tier"])
        spec = {"property": PROP, "tier": job["tier"], "ids": ids, "history": []}
        ch = Chooser(seed=rs)
        r1, s1 = run_history(CTX["root"], [configs[c]["argv"] for c in ids], ch)
        r2, s2 = run_history(CTX["root"], [configs[c]["argv"] for c in ids], Chooser(replay=ch.rec))
        if s1.digest() != s2.digest():
            errs.append("nondeterministic C18 history %r" % (ids,))
        items.append({"spec": spec, "choices": list(ch.rec), "digest": s1.digest()})
    fresh, err = flow.fresh_digests(PROP, [{"spec": it["spec"], "choices": it["choices"]} for it in items], 0, job["root"])
    if err:
        errs.append(err)
    else:
        bad = [i for i, (it, d) in enumerate(zip(items, fresh)) if it["digest"] != d]
        if bad:
            errs.append("fresh interpreter gave different event logs / reports for histories %r" % bad[:5])
    return errs, len(items)


RULE = ("one evaluation = one analysis (osaca.osaca.run) inside a generated history of 2-12 analyses issued by ONE simulated "
        "long-lived process (one fresh copy of the osaca package), compared element-wise with the report of a fresh real "
        "subprocess for the same configuration; histories are biased towards repeats, same kernel on another model, "
        "same model on another kernel, fixed<->optimal, ISA switches, analyses after one that raised, and kernels with "
        "memory-composed / dependency-breaking / pre-post-indexed / unknown instructions; distinct non-trivial = distinct "
        "sequence of configuration ids")
ASSUMPTIONS = [
    "the reference is a fresh /venv/bin/python subprocess per configuration with the same PYTHONHASHSEED (0) and the same "
    "scratch data directory (caches warm); report text is compared after dropping the Timestamp line; an analysis that "
    "raises is rendered as 'EXC <type>: <message>'",
    "the history process runs under the simulator's multiprocessing/time stand-ins (4 simulated CPUs, fixed timeout clock), "
    "so kernels of 50+ lines use the simulated parallel search; no faults are injected (the property has none)",
    "concurrent callers in threads are not exercised: the property speaks of analyses before, not during",
]
COMPONENTS = {
    "real": ["osaca.osaca.create_parser/check_arguments/run/inspect", "both parsers (singletons)", "get_asm_parser lru_cache",
             "MachineModel incl. cache lookup and _runtime_cache", "ISASemantics, ArchSemantics, KernelDG, Frontend",
             "fresh subprocess reference: real interpreter, real multiprocessing"],
    "stub": ["process = thread with a private copy of the osaca package", "multiprocessing/time/os.kill stand-ins inside the history process"],
}


def check(tier, seed, fingerprint, t0):
    from . import flow
    return flow.standard_check(
        PROP, tier, seed, fingerprint, t0, archs=archs_for(tier), worker_init=worker_init, build_jobs=build_jobs,
        run_job=run_job, shrink_job=shrink_job, rule=RULE, assumptions=ASSUMPTIONS, components=COMPONENTS,
        determinism=(build_det_jobs, det_job), wall_per_job=2400)
