"""C16 — LCD result is independent of process scheduling and worker count.

Fault-free configuration of the search simulation (timeouts -1 / generous): parallel result
must equal the sequential reference exactly (ordered), for every worker count and schedule;
plus repeated real CLI runs in fresh interpreters under different hash seeds, and sampled
real-multiprocessing runs that validate the stand-ins.
"""
import json
import os
import random
import subprocess
import sys

from . import core, procs, lcd, lcdcheck, corpus, env, batch
from .core import Chooser, derive_seed
from .lcdcheck import GENEROUS

PROP = "C16"
WORKERS = [1, 2, 3, 5, 16, "klen+3"]


def judge(spec, res, ref):
    if res.harness is not None:
        raise res.harness
    facts = lcdcheck.base_facts(spec, res)
    site = facts["branch"] + "-branch"
    V = []

    def viol(cls, detail):
        V.append({"property": PROP, "class": cls, "site": site, "detail": detail, "facts": facts})

    if res.aborted in ("max_steps", "max_now"):
        return "inconclusive", res.aborted, facts
    if res.violation is not None:
        viol(res.violation.cls, res.violation.detail)
        return "violation", V, facts
    if res.deadlock:
        viol("analysis_hung", "no task runnable while the analysis had not returned: %r" % (res.sim.log[-1],))
        return "violation", V, facts
    if res.parent_exc is not None:
        viol("analysis_failed", "analysis raised %r" % (res.parent_exc,))
        return "violation", V, facts
    out = res.out
    got, want = out["lcd"], ref["lcd"]
    gs = {(k, lat, deps) for k, lat, deps, root in got}
    if gs != ref["lcdset"]:
        missing = sorted(ref["lcdset"] - gs)[:2]
        extra = sorted(gs - ref["lcdset"])[:2]
        viol("parallel_differs_from_sequential",
             "%d LCDs with %d workers vs %d sequentially; missing %r extra %r"
             % (len(gs), spec["workers"], len(ref["lcdset"]), missing, extra))
    elif got != want:
        viol("order_depends_on_schedule", "same LCD set but different order / root: %r vs %r"
             % ([g[0] for g in got][:6], [w[0] for w in want][:6]))
    if out["timed_out"]:
        viol("spurious_timeout_flag", "timed_out set although the timeout (%s) was never reached" % spec["timeout"])
    want_text = ref.get("text_cli") if spec.get("via_cli") else ref["text"]
    if not V and want_text is not None and out["text"] != want_text:
        import difflib
        d = list(difflib.unified_diff(want_text.split("\n"), out["text"].split("\n"), lineterm="", n=0))[:6]
        viol("report_differs_between_runs", "report text differs from the sequential run: %r" % (d,))
    left = [pid for pid, dead, joined in res.captured.get("procs_at_exit", []) if not dead]
    if left:
        viol("worker_left_behind", "workers %r still running when the search returned" % (left,))
    facts["unjoined"] = sum(1 for pid, dead, joined in res.captured.get("procs_at_exit", []) if not joined)
    facts["n_lcd"] = len(got)
    return ("violation", V, facts) if V else ("ok", None, facts)


def probes(agg, spec, res, facts):
    procs_ = [p for p in res.world.procs if p.started]
    order_exit = [e[1] for e in res.sim.log if len(e) > 2 and e[2] == "exit" and e[1].startswith("w")]
    order_start = ["w%d" % p.pid for p in procs_]
    if order_exit != order_start[: len(order_exit)] and len(order_exit) > 1:
        agg.probes["completion_order_differs_from_start_order"] += 1
    case = lcdcheck.get_case(spec["case"])
    if any(len(_section(p)) == 0 for p in procs_):
        agg.probes["worker_with_empty_slice_ran"] += 1
    # the same cycle delivered by two workers
    applied = [e for e in res.sim.log if len(e) > 2 and e[2] == "apply" and e[4] == "extend"]
    agg.stats["delivery_applied"] += len(applied)
    senders = [e[3] for e in applied]
    if len(set(senders)) > 1:
        inter = sum(1 for a, b in zip(senders, senders[1:]) if a != b)
        if inter > len(set(senders)) - 1:
            agg.probes["deliveries_of_different_workers_interleaved"] += 1
    polls = 0
    for e in res.sim.log:
        if len(e) > 3 and e[2] == "y" and e[3] == "is_alive":
            polls += 1
    if polls > facts["started"]:
        agg.probes["parent_polled_while_some_workers_alive"] += 1
    if res.sim.stats.get("late_apply"):
        agg.probes["delivery_applied_after_sender_exited"] += 1
    if facts["n_lcd"] and facts["started"] > 1:
        agg.probes["multi_worker_run_with_lcds"] += 1
    part = lcdcheck.sections_partition(res, case.klen)
    if part is not None and facts["branch"] == "parallel":
        want = sorted(i.line_number for i in case.kernel)
        if sorted(part) != want:
            agg.notes["root_partition_not_exact(no verdict)"] += 1
    agg.stats["worker_started"] += facts["started"]
    slow = sum(1 for p in procs_ if p.task and p.task.line_cost >= 3e-4)
    agg.stats["slow_or_stalled_worker"] += slow
    agg.stats["delayed_start"] += sum(1 for p in procs_ if p.task and p.task.attrs.get("delay", 0) > 0)


def _section(p):
    for a in p._args:
        if isinstance(a, list):
            return a
    return [None]


def run_params(rng, klen):
    w = rng.choice(WORKERS)
    workers = klen + 3 if w == "klen+3" else w
    if rng.random() < 0.12:
        workers = rng.randint(1, max(4, min(2 * klen, 40)))  # any other count (the property says "any number")
    r = rng.random()
    if klen >= 50:
        threshold = None if r < 0.85 else klen  # boundary: klen >= threshold is still parallel
    else:
        threshold = 1 if r < 0.7 else (klen if r < 0.9 else klen + 1)
    timeout = rng.choice([-1, -1, GENEROUS, 1.0e4])
    return {"workers": workers, "threshold": threshold, "timeout": timeout, "speeds": list(procs.SPEEDS),
            "via_cli": rng.random() < 0.15}


def make_spec(cs, params):
    s = {"property": PROP, "case": cs, "check_deadline": False}
    s.update(params)
    return s


def stubtest_job(job):
    from . import stubtest
    agg = batch.Agg()
    errs, info = stubtest.run_all(job["seed"], job["n"])
    agg.harness_errors.extend(errs)
    for k, v in info.items():
        agg.notes["stubtest:" + k] += v
    return agg.to_dict()


def run_job(job):
    if job.get("kind") == "stubtest":
        return stubtest_job(job)
    if job.get("kind") == "repeat":
        return repeat_job(job)
    if job.get("kind") == "realproc":
        return realproc_job(job)
    agg = batch.Agg()
    cs = job["case"]
    case = lcdcheck.get_case(cs)
    ref = lcdcheck.get_ref(case)
    if not ref["tractable"]:
        agg.notes["case_skipped_untimed_analysis_raises" if ref.get("error") else "case_rejected_intractable"] += 1
        return agg.to_dict()
    n_runs = job["n"]
    if ref["lines"] > 150000 and not cs.get("keep_runs"):
        n_runs = max(1, n_runs // 6)
    elif ref["lines"] > 150000:
        n_runs = max(1, n_runs // 3)
        agg.notes["heavy_case_runs_reduced"] += 1
    agg.notes["cases_klen_ge_50" if case.klen >= 50 else "cases_klen_lt_50"] += 1
    for i in range(job["first"], job["first"] + n_runs):
        rs = derive_seed(job["seed"], PROP, case.cid, i)
        params = run_params(random.Random(rs), case.klen)
        spec = make_spec(cs, params)
        ch = Chooser(seed=rs ^ 0x5bd1e995)
        res = lcdcheck.execute(spec, ch)
        verdict, info, facts = judge(spec, res, ref)
        agg.runs += 1
        agg.sim_seconds += min(res.sim.now, 1e5)
        dg = res.sim.schedule_digest()[:16]
        agg.digests.add(dg)
        if verdict == "inconclusive":
            agg.inconclusive += 1
            agg.notes["inconclusive:" + str(info)] += 1
            continue
        probes(agg, spec, res, facts)
        agg.states.add("klen%d|w%d|%s" % (case.klen, facts["workers"], facts["branch"]))
        if spec.get("via_cli"):
            agg.probes["run_through_cli_entry_point(osaca.osaca.run)"] += 1
        arrival = tuple(e[3] for e in res.sim.log if len(e) > 2 and e[2] == "apply" and e[4] == "extend")
        agg.states.add("arrival:%s:%x" % (case.cid[:6], hash(arrival) & 0xffffffff))
        if facts["started"] > 1 and facts["n_lcd"] > 0:
            agg.nontrivial.add(dg)
        if len(agg.samples) < 1 and facts["started"] > 1:
            agg.samples.append({"kernel": cs["name"], "arch": cs["arch"], "klen": case.klen,
                                "workers": spec["workers"], "threshold": spec["threshold"],
                                "timeout": spec["timeout"], "n_lcd": facts["n_lcd"],
                                "arrival_order_of_deliveries": list(arrival)[:12], "choices": len(ch.rec)})
        if verdict == "violation":
            for v in info:
                v.update({"spec": spec, "choices": list(ch.rec), "verif_seed": job["seed"], "run_index": i,
                          "subcheck": "sim-schedule", "event_log_sha1": res.sim.digest(),
                          "event_log_tail": [repr(e) for e in res.sim.log[-25:]]})
                agg.violations.append(v)
            if len(agg.violations) > 40:
                break
    return agg.to_dict()


def replay_once(spec, choices):
    if spec.get("kind") == "repeat":
        return repeat_replay(spec)
    case = lcdcheck.get_case(spec["case"])
    ref = lcdcheck.get_ref(case)
    if not ref["tractable"]:
        return [], "", []
    ch = Chooser(replay=choices)
    res = lcdcheck.execute(spec, ch)
    verdict, info, facts = judge(spec, res, ref)
    return (info if verdict == "violation" else []), res.sim.digest(), ch.rec


# ------------------------------------------------------------------ repeated real CLI runs
DRIVER = os.path.join(os.path.dirname(os.path.abspath(__file__)), "cli_driver.py")


def cli_run(root, argv, ncpu, hashseed, threshold=None, timeout=300):
    envv = dict(os.environ, PYTHONHASHSEED=str(hashseed), VERIF_SCRATCH_ROOT=root,
                VERIF_NCPU=str(ncpu), VERIF_REPO=env.REPO)
    if threshold is not None:
        envv["VERIF_THRESHOLD"] = str(threshold)
    rc, out, err = batch.run_process_group([sys.executable, DRIVER] + argv, timeout, envv)
    return (rc if rc is not None else -9), lcd.strip_ts(out), err[-2000:]


def repeat_job(job):
    """The same command in fresh interpreters: PYTHONHASHSEED x worker count; byte-identical text."""
    import tempfile
    agg = batch.Agg()
    cs = job["case"]
    root = lcdcheck.CTX["root"]
    fd, path = tempfile.mkstemp(prefix="verif-k-", suffix=".s", dir=root)
    with os.fdopen(fd, "w") as f:
        f.write(cs["text"])
    try:
        argv = ["--arch", cs["arch"], "--lcd-timeout", "-1"] + (["-f"] if cs.get("flag_deps") else []) + [path]
        outs = {}
        for hs, ncpu in job["grid"]:
            rc, text, err = cli_run(root, argv, ncpu, hs, job.get("threshold"))
            agg.runs += 1
            text = text.replace(path, "<kernel>")
            outs[(hs, ncpu)] = (rc, text, err)
            agg.stats["fresh_interpreter_run"] += 1
        base_key = sorted(outs, key=str)[0]
        base = outs[base_key]
        agg.states.add("repeat:%s" % cs["name"])
        agg.nontrivial.add("repeat:%s:%d" % (lcdcheck.case_id(cs), len(outs)))
        for k in sorted(outs, key=str):
            rc, text, err = outs[k]
            if rc != 0 and base[0] == 0 or (rc == 0 and text != base[1]):
                import difflib
                d = list(difflib.unified_diff(base[1].split("\n"), text.split("\n"), lineterm="", n=0))[:8]
                spec = {"property": PROP, "kind": "repeat", "case": cs, "grid": [list(base_key), list(k)],
                        "threshold": job.get("threshold")}
                agg.violations.append({
                    "property": PROP, "class": "report_differs_between_runs", "site": "cli",
                    "detail": "PYTHONHASHSEED/cpu_count %r vs %r: rc %d vs %d; diff %r; stderr %r" % (base_key, k, base[0], rc, d, err[-300:]),
                    "facts": {"klen": None}, "spec": spec, "choices": [], "verif_seed": job["seed"],
                    "run_index": 0, "subcheck": "repeat-cli", "event_log_sha1": "", "event_log_tail": []})
                break
        if len(agg.samples) < 1:
            agg.samples.append({"repeat-cli": cs["name"], "arch": cs["arch"], "grid(hashseed,cpu_count)": job["grid"],
                                "identical": not agg.violations})
    finally:
        os.unlink(path)
    return agg.to_dict()


def repeat_replay(spec):
    import tempfile
    root = lcdcheck.CTX["root"]
    cs = spec["case"]
    fd, path = tempfile.mkstemp(prefix="verif-k-", suffix=".s", dir=root)
    with os.fdopen(fd, "w") as f:
        f.write(cs["text"])
    try:
        argv = ["--arch", cs["arch"], "--lcd-timeout", "-1"] + (["-f"] if cs.get("flag_deps") else []) + [path]
        # real processes, real scheduler: not a deterministic replay — the configuration is re-run up to
        # five times and counts as reproduced if the two reports differ at least once
        for attempt in range(5):
            outs = []
            for i, (hs, ncpu) in enumerate(spec["grid"]):
                thr = spec.get("threshold")
                if spec.get("thresholds"):
                    thr = spec["thresholds"][i]
                rc, text, err = cli_run(root, argv, ncpu, hs, thr)
                outs.append((rc, text.replace(path, "<kernel>")))
            if outs[0] != outs[1]:
                return [{"property": PROP, "class": spec.get("class", "report_differs_between_runs"), "site": spec.get("site", "cli"),
                         "detail": "reports differ between %r and %r (attempt %d)" % (tuple(spec["grid"][0]), tuple(spec["grid"][1]), attempt + 1),
                         "facts": {}}], "", []
        return [], "", []
    finally:
        os.unlink(path)


# ------------------------------------------------------------------ real multiprocessing cross-check
def realproc_job(job):
    """Stub fidelity: the same kernel through the real multiprocessing module (real fork, real
    Manager, real clock) must give the sequential reference.  Evidence about the stand-ins; OS
    level trouble here is a harness error, never a violation of the property."""
    agg = batch.Agg()
    cs = job["case"]
    root = lcdcheck.CTX["root"]
    import tempfile
    fd, path = tempfile.mkstemp(prefix="verif-k-", suffix=".s", dir=root)
    with os.fdopen(fd, "w") as f:
        f.write(cs["text"])
    try:
        argv = ["--arch", cs["arch"], "--lcd-timeout", "-1", path]
        rc0, seq, err0 = cli_run(root, argv, 1, 0, threshold=10 ** 9)
        rc1, par, err1 = cli_run(root, argv, job["ncpu"], 0, threshold=1)
        agg.notes["realproc_runs"] += 2
        if rc0 == 0 and rc1 != 0 and not batch.os_level_failure(rc1, err1):
            spec = {"property": PROP, "kind": "repeat", "case": cs, "grid": [[0, 1], [0, job["ncpu"]]],
                    "thresholds": [10 ** 9, 1], "class": "parallel_differs_from_sequential", "site": "real-multiprocessing"}
            agg.violations.append({
                "property": PROP, "class": "parallel_differs_from_sequential", "site": "real-multiprocessing",
                "detail": "real multiprocessing run with %d workers fails where the sequential run succeeds: %s" % (job["ncpu"], err1[-400:]),
                "facts": {}, "spec": spec, "choices": [], "verif_seed": job["seed"], "run_index": 0,
                "subcheck": "real-process", "event_log_sha1": "", "event_log_tail": []})
        elif rc0 != 0 or rc1 != 0:
            # OS-level trouble (fork failure under load, time limit): no evidence either way, not a verdict
            agg.notes["realproc_could_not_run"] += 1
            agg.notes["realproc_could_not_run: rc %r/%r %s" % (rc0, rc1, (err1 or err0)[-120:].replace("\n", " "))] += 1
        else:
            agg.notes["realproc_agrees_with_sequential" if seq == par else "realproc_DISAGREES"] += 1
            if seq != par:
                import difflib
                d = list(difflib.unified_diff(seq.split("\n"), par.split("\n"), lineterm="", n=0))[:8]
                spec = {"property": PROP, "kind": "repeat", "case": cs, "grid": [[0, 1], [0, job["ncpu"]]],
                        "thresholds": [10 ** 9, 1], "class": "parallel_differs_from_sequential", "site": "real-multiprocessing"}
                agg.violations.append({
                    "property": PROP, "class": "parallel_differs_from_sequential", "site": "real-multiprocessing",
                    "detail": "real multiprocessing run with %d workers differs from the sequential run: %r" % (job["ncpu"], d),
                    "facts": {}, "spec": spec, "choices": [], "verif_seed": job["seed"], "run_index": 0,
                    "subcheck": "real-process", "event_log_sha1": "", "event_log_tail": []})
    finally:
        os.unlink(path)
    return agg.to_dict()


# ------------------------------------------------------------------ corpus / jobs
def build_cases(tier, seed):
    rng = random.Random(derive_seed(seed, PROP, "corpus"))
    shipped = corpus.shipped_kernels()
    arm_models = ["tx2", "n1", "a64fx", "tsv110"]
    x86_models = ["zen1"] if tier == "quick" else ["zen1", "zen2", "icx"]
    small = [s for s in shipped if "long_LCD" not in s[0] and "iaca" not in s[0]]
    cases = []
    if tier == "quick":
        tests = [s for s in small if s[0].startswith("tests")]
        ex = [s for s in small if not s[0].startswith("tests")]
        rng.shuffle(ex)
        base = tests + ex[:8]
    else:
        base = small
    for i, (name, isa, text) in enumerate(base):
        archs = x86_models if isa == "x86" else arm_models[:2] + [arm_models[2 + i % 2]]
        if tier == "quick":
            archs = [archs[i % len(archs)]]
        for a in archs:
            cases.append({"name": name, "arch": a, "text": text, "flag_deps": bool(i % 3 == 0)})
    npad = 10 if tier == "quick" else 60
    for j in range(npad):
        name, isa, text = small[rng.randrange(len(small))]
        lines = corpus.kernel_lines(text, isa)
        ninstr = len([l for l in lines if corpus._is_instr(l)])
        if not ninstr:
            continue
        if rng.random() < 0.7:
            t = corpus.pad_kernel(lines, isa, rng, rng.choice([49, 50, 50, 51, 53, 57, 64]))
            tag = "pad"
        else:
            times = max(2, -(-50 // ninstr))
            t = corpus.repeat_kernel(lines, times)
            tag = "rep%d" % times
        cases.append({"name": "%s+%s#%d" % (name, tag, j), "arch": "zen1" if isa == "x86" else arm_models[j % 4], "text": t})
    # kernels deep inside a big file (all line numbers above 1000), with and without the closing branch
    for j in range(4 if tier == "quick" else 24):
        isa = "x86" if j % 2 == 0 else "aarch64"
        shape, t = corpus.gen_kernel(isa, rng, rng.choice([50, 54, 60]), rng.choice(["chains", "ring1", "bump_mem", "mixed"]), noise=False)
        body, sel = corpus.deep_variant(t, isa, rng.choice([1000, 1499, 5000]), drop_tail=(j % 4 < 2))
        cases.append({"name": "gen/deep-%s-%d" % (shape, j), "arch": "zen1" if isa == "x86" else arm_models[j % 4], "text": body,
                      "lines": sel})
    for w in corpus.windowed_cases(rng, 4 if tier == "quick" else 30):
        cases.append({"name": w["name"], "arch": w["arch"], "text": w["text"], "lines": w["lines"]})
    # path-rich but enumerable: one worker collects thousands of raw paths (buffers, batching, caps)
    for j in range(2 if tier == "quick" else 12):
        isa = "x86" if j % 2 == 0 else "aarch64"
        shape, t = corpus.gen_kernel(isa, rng, rng.choice([50, 52, 56]), "ladder", noise=False)
        cases.append({"name": "gen/ladder-%d" % j, "arch": "zen1" if isa == "x86" else arm_models[j % 4], "text": t,
                      "keep_runs": True})
    for j in range(2 if tier == "quick" else 8):
        shape, t = corpus.gen_kernel("aarch64", rng, rng.choice([50, 54, 58]), "wb_both", noise=False)
        cases.append({"name": "gen/wb_both-%d" % j, "arch": arm_models[j % 4], "text": t, "hashseed_grid": True})
    ngen = 22 if tier == "quick" else 200
    for j in range(ngen):
        isa = "x86" if j % 2 == 0 else "aarch64"
        n = rng.choice([3, 6, 10, 16, 24, 36, 47, 48, 49, 50, 51, 55, 62, 70])
        shape, t = corpus.gen_kernel(isa, rng, n)
        cases.append({"name": "gen/%s-%d-%d" % (shape, n, j), "arch": "zen1" if isa == "x86" else arm_models[j % 4], "text": t})
    return cases


def archs_for(tier):
    return ["zen1", "tx2", "n1", "a64fx", "tsv110"] + ([] if tier == "quick" else ["zen2", "icx"])


def build_jobs(tier, seed):
    cases = build_cases(tier, seed)
    n = 48 if tier == "quick" else 200
    per = 16 if tier == "quick" else 100
    jobs = []
    for cs in cases:
        for first in range(0, n, per):
            jobs.append({"case": dict(cs, ref_cap=60000 if cs.get("keep_runs") else 8000), "n": min(per, n - first),
                         "first": first, "seed": seed})
    rng = random.Random(derive_seed(seed, PROP, "repeat"))
    # repeated CLI runs: long kernels go through the real parallel branch of the real code
    long_cases = [c for c in cases if "+pad" in c["name"] or "+rep" in c["name"] or "-5" in c["name"] or "-6" in c["name"] or "-70" in c["name"]]
    nrep = 6 if tier == "quick" else 60
    picks = long_cases[:nrep // 2] + [cases[rng.randrange(len(cases))] for _ in range(nrep - nrep // 2)]
    for cs in [c for c in cases if c.get("hashseed_grid")]:
        # many hash seeds, few worker counts: what differs between interpreters, not between schedules
        jobs.append({"kind": "repeat", "case": cs, "grid": [[h, c] for h in (0, 1, 2, 3, 4, 7) for c in (1, 3)], "seed": seed})
    for cs in picks:
        hs = [0, 1, 2, 3, "random"]
        grid = [[h, c] for h in (hs if tier != "quick" else [0, 3, "random"]) for c in ([1, 3, 16] if tier != "quick" else [1, 16])]
        jobs.append({"kind": "repeat", "case": cs, "grid": grid, "seed": seed})
    jobs.insert(0, {"kind": "stubtest", "seed": seed, "n": 40 if tier == "quick" else 400})
    nreal = 6 if tier == "quick" else 60
    for j in range(nreal):
        cs = cases[rng.randrange(len(cases))]
        jobs.append({"kind": "realproc", "case": cs, "ncpu": [2, 3, 5, 16][j % 4], "seed": seed})
    return jobs


def shrink_job(job):
    from . import flow, shrink
    v = job["v"]
    if v["spec"].get("kind") == "repeat":
        v = dict(v)
        v["minimised"] = {"note": "CLI repeat case; not minimised"}
        return v
    shr = [shrink.drop_text_lines(("case", "text")), shrink.lower_int("workers")]
    return flow.do_shrink(v, replay_once, shr)


def replay_file(doc):
    root = env.make_scratch()
    try:
        env.build_data_dir(root, [doc["spec"]["case"]["arch"]])
        lcdcheck.worker_init(root)
        vs, digest, rec = replay_once(doc["spec"], doc["choices"])
        return vs, digest
    finally:
        env.remove_scratch(root)


def digests_for(items):
    root = os.environ.get("VERIF_SCRATCH_ROOT")
    own = None
    if not root or not os.path.isdir(root):
        root = own = env.make_scratch()
        env.build_data_dir(root, sorted({it["spec"]["case"]["arch"] for it in items}))
    try:
        lcdcheck.worker_init(root)
        out = []
        for it in items:
            case = lcdcheck.get_case(it["spec"]["case"])
            res = lcdcheck.execute(it["spec"], Chooser(replay=it["choices"]))
            out.append(res.sim.digest() + "|" + report_sha(res))
        return out
    finally:
        if own:
            env.remove_scratch(own)


def report_sha(res):
    import hashlib
    if res.out is None:
        return "none"
    return hashlib.sha1((res.out.get("text") or "").encode()).hexdigest()[:16]


def build_det_jobs(tier, seed, root):
    n = 16 if tier == "quick" else 208
    cases = build_cases(tier, seed)
    per = 2 if tier == "quick" else 13
    jobs = []
    for first in range(0, n, per):
        jobs.append({"items": [(i, cases[(i * 7) % len(cases)]) for i in range(first, min(n, first + per))],
                     "seed": seed, "root": root})
    return jobs


def det_job(job):
    from . import flow
    seed = job["seed"]
    items, errs = [], []
    for i, cs in job["items"]:
        case = lcdcheck.get_case(cs)
        ref = lcdcheck.get_ref(case)
        if not ref["tractable"]:
            continue
        rs = derive_seed(seed, PROP, "det", i)
        spec = make_spec(cs, run_params(random.Random(rs), case.klen))
        spec["max_steps"] = 12000
        ch = Chooser(seed=rs)
        r1 = lcdcheck.execute(spec, ch)
        r2 = lcdcheck.execute(spec, Chooser(seed=rs))
        r3 = lcdcheck.execute(spec, Chooser(replay=ch.rec))
        d1, d2, d3 = r1.sim.digest(), r2.sim.digest(), r3.sim.digest()
        if not (d1 == d2 == d3):
            errs.append("nondeterministic simulation: %s seed %d digests %s %s %s" % (cs["name"], rs, d1, d2, d3))
        items.append({"spec": spec, "choices": list(ch.rec), "digest": d1, "report": report_sha(r1), "name": cs["name"]})
    hash_seed_violations = []
    if items:
        fresh, err = flow.fresh_digests(PROP, [{"spec": it["spec"], "choices": it["choices"]} for it in items],
                                        11 + seed % 5, job["root"])
        if err:
            errs.append(err)
        else:
            for i, (it, d) in enumerate(zip(items, fresh)):
                dg, _, rep = d.partition("|")
                if dg != it["digest"]:
                    errs.append("fresh interpreter under another PYTHONHASHSEED gave a different event log for item %d (%s)" % (i, it["name"]))
                elif rep != it["report"]:
                    # same schedule, other hash seed, other report text: that is the property, not the harness
                    hash_seed_violations.append({
                        "property": PROP, "class": "report_differs_between_runs", "site": "hashseed",
                        "detail": "same kernel, same simulated schedule, PYTHONHASHSEED 0 vs %d: report text differs (%s)" % (11 + seed % 5, it["name"]),
                        "facts": {}, "spec": it["spec"], "choices": it["choices"], "verif_seed": seed, "run_index": i,
                        "subcheck": "hashseed", "event_log_sha1": it["digest"], "event_log_tail": []})
    return errs, len(items), hash_seed_violations


RULE = ("one evaluation = one simulated analysis of one tractable kernel (real KernelDG constructor + Frontend) "
        "with a drawn worker count in {1,2,3,5,16,klen+3}, threshold (real 50 for long kernels, patched for short "
        "ones, boundary values klen / klen+1) and timeout in {-1, 1e4, 1e6} under one seeded schedule (start delays, "
        "per-worker speeds, delivery and completion order), or one fresh-interpreter CLI run of the repeat grid; "
        "distinct = distinct schedule digest; non-trivial = more than one worker ran and the kernel has at least one LCD")
ASSUMPTIONS = [
    "latencies in models are multiples of 0.5 (true for all shipped models), so float sums over a cycle do not depend "
    "on the rotation in which a duplicate is met first; with non-dyadic user latencies the last bit could differ",
    "kernels whose sequential reference does not finish within the step cap are rejected (they belong to C19)",
    "a simulated process is a thread running the real target on a deep copy of its arguments (fork semantics); "
    "sampled real-multiprocessing runs cross-check the stand-ins",
    "only the text report is compared in the repeated CLI runs (C16 speaks of reports)",
]
COMPONENTS = {
    "real": ["osaca.semantics.kernel_dg.KernelDG", "KernelDG._extend_path", "networkx all_simple_paths",
             "osaca.frontend.Frontend", "osaca.osaca.main (repeat-cli and real-process sub-checks, real multiprocessing)"],
    "stub": ["multiprocessing.Process/Manager/cpu_count, time, os.kill (simulated sub-check only)"],
}


def check(tier, seed, fingerprint, t0):
    from . import flow
    return flow.standard_check(
        PROP, tier, seed, fingerprint, t0, archs=archs_for(tier), worker_init=lcdcheck.worker_init,
        build_jobs=build_jobs, run_job=run_job, shrink_job=shrink_job, rule=RULE,
        assumptions=ASSUMPTIONS, components=COMPONENTS, determinism=(build_det_jobs, det_job))
