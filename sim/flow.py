"""The common shape of a check: scratch data dir -> jobs in a forked pool -> aggregate ->
known findings -> minimise + replay files -> determinism self-test -> evidence -> exit code."""
import json
import os
import subprocess
import sys

from . import env, batch, shrink as shrink_mod

MAX_REPORTED_PER_KEY = 1
MAX_REPORTED = 6


def vkey(v):
    return (v["class"], v.get("site"))


def standard_check(prop, tier, seed, fingerprint, t0, *, archs, worker_init, build_jobs, run_job,
                   shrink_job, rule, assumptions, components, determinism=None,
                   extra_phase=None, wall_per_job=900, isa_files=("x86", "aarch64")):
    root = env.make_scratch()
    try:
        env.build_data_dir(root, archs, isa_files)
        tw = batch.real_now()
        env.warm_caches(root, archs, isa_files)
        print("scratch data dir %s: %d models cached from the working tree in %.1f s"
              % (root, len(archs), batch.real_now() - tw), flush=True)
        worker_init(root)
        jobs = build_jobs(tier, seed)
        print("%d jobs" % len(jobs), flush=True)
        tp = batch.real_now()
        results, errors = batch.run_pool(jobs, run_job, worker_init, (root,), wall_per_job=wall_per_job)
        print("pool finished in %.1f s" % (batch.real_now() - tp), flush=True)
        agg = batch.Agg()
        for r in results:
            agg.merge_dict(r)
        extra = {}
        if extra_phase is not None:
            ex_errors = extra_phase(root, tier, seed, agg, extra)
            errors.extend(ex_errors or [])
        # ---- known findings
        known = batch.load_known()
        new, known_hits = [], {}
        for v in agg.violations:
            k = batch.match_known(v, known)
            if k is not None:
                known_hits.setdefault(k["id"], [k, 0])[1] += 1
            else:
                new.append(v)
        known_lines = []
        for kid, (k, n) in sorted(known_hits.items()):
            line = "KNOWN-FINDING: property=%s %s [class=%s site=%s; observed in %d runs]" % (
                prop, k["what"], k["class"], k["site"], n)
            print(line, flush=True)
            known_lines.append(line)
        # ---- minimise and report
        reported = []
        by_key = {}
        for v in new:
            by_key.setdefault(vkey(v), []).append(v)
        to_shrink = []
        for key in sorted(by_key, key=str):
            vs = sorted(by_key[key], key=lambda v: len(v.get("choices", [])))
            to_shrink.extend(vs[:MAX_REPORTED_PER_KEY])
        to_shrink = to_shrink[:MAX_REPORTED]
        if to_shrink:
            sjobs = [{"v": v} for v in to_shrink]
            sres, serr = batch.run_pool(sjobs, shrink_job, worker_init, (root,),
                                        wall_per_job=600)
            errors.extend(serr)
            for v in sres:
                path = batch.write_replay(v, fingerprint)
                fresh = _replay_fresh(path)
                v["replayed_in_fresh_interpreter"] = fresh
                json.dump(dict(v, format=1, found_on=fingerprint), open(path, "w"), indent=1, default=str)
                print("violation class=%s site=%s: %s" % (v["class"], v.get("site"), v["detail"]))
                print("  minimised %s; fresh-interpreter replay: %s" % (v.get("minimised"), fresh))
                print("VIOLATION property=%s replay=%s" % (prop, path), flush=True)
                reported.append(v)
        # ---- determinism self-test (parallel jobs; each also re-runs in a fresh interpreter)
        det = {}
        if determinism is not None and not errors:
            td = batch.real_now()
            build_det_jobs, det_job = determinism
            djobs = build_det_jobs(tier, seed, root)
            dres, derr = batch.run_pool(djobs, det_job, worker_init, (root,), wall_per_job=900)
            errors.extend(derr)
            n = 0
            det_viol = []
            for item in dres:
                errors.extend(item[0])
                n += item[1]
                if len(item) > 2:
                    det_viol.extend(item[2])
            for v in det_viol[:2]:
                path = batch.write_replay(v, fingerprint)
                print("violation class=%s site=%s: %s" % (v["class"], v.get("site"), v["detail"]))
                print("VIOLATION property=%s replay=%s" % (prop, path), flush=True)
                reported.append(v)
            det = {"quadruples": n, "all_equal": not derr and all(not item[0] for item in dres),
                   "what": "same seed twice in-process, once via Replay(recorded choices), once in a fresh "
                           "interpreter under another PYTHONHASHSEED: event-log sha1 must be identical"}
            print("determinism self-test %.1f s: %d quadruples, all equal: %s" % (batch.real_now() - td, n, det["all_equal"]), flush=True)
        extra["determinism_selftest"] = det
        extra["components"] = components
        extra["violation_classes_seen"] = sorted({"%s/%s" % vkey(v) for v in agg.violations})
        extra["violations_new"] = len(new)
        extra["violations_known"] = sum(n for k, n in known_hits.values())
        extra["harness_errors"] = errors[:5]
        extra["repo"] = fingerprint
        wall = batch.real_now() - t0
        batch.write_evidence(prop, tier, seed, agg, wall, rule, extra, assumptions,
                             violations=len(reported), known=known_lines)
        print("runs=%d inconclusive=%d distinct_interleavings=%d states=%d sim_seconds=%.1f wall=%.1fs (%.0f runs/h)"
              % (agg.runs, agg.inconclusive, len(agg.digests), len(agg.states), agg.sim_seconds, wall,
                 agg.runs / wall * 3600 if wall else 0), flush=True)
        print("faults fired: %s" % dict(sorted(agg.stats.items())))
        print("probes hit:   %s" % dict(sorted(agg.probes.items())))
        if errors:
            for e in errors[:5]:
                print("HARNESS-ERROR property=%s %s" % (prop, e.strip().split("\n")[0]))
                print(e)
            return batch.EXIT_HARNESS if not reported else batch.EXIT_VIOLATION
        if reported:
            return batch.EXIT_VIOLATION
        if agg.runs == 0:
            print("HARNESS-ERROR property=%s no run executed" % prop)
            return batch.EXIT_HARNESS
        print("OK property=%s held on everything explored" % prop)
        return batch.EXIT_OK
    finally:
        env.remove_scratch(root)


def do_shrink(v, replay_once, spec_shrinkers):
    key = vkey(v)

    def test(spec, choices):
        vs, digest, rec = replay_once(spec, choices)
        for x in vs:
            if vkey(x) == key:
                return key
        return None

    n0 = len(v["choices"])
    spec, choices, runs = shrink_mod.shrink(v["spec"], v["choices"], key, test, spec_shrinkers,
                                            budget=int(os.environ.get("VERIF_SHRINK_BUDGET", "200")))
    vs, digest, rec = replay_once(spec, choices)
    hit = [x for x in vs if vkey(x) == key]
    out = dict(v)
    if hit:
        out.update(hit[0])
        out["spec"], out["choices"] = spec, list(choices)
        out["event_log_sha1"] = digest
        out["minimised"] = {"from_choices": n0, "to_choices": len(choices), "reexecutions": runs}
    else:
        out["minimised"] = {"from_choices": n0, "to_choices": n0, "reexecutions": runs,
                            "note": "minimised trace did not reproduce; unminimised trace kept"}
    out["verif_seed"], out["run_index"] = v.get("verif_seed"), v.get("run_index")
    return out


def _replay_fresh(path):
    """Replay in a fresh interpreter; must print the VIOLATION line again."""
    try:
        p = subprocess.run([sys.executable, os.path.join(env.VERIF, "sim", "run.py"), "replay", path],
                           capture_output=True, text=True, timeout=600,
                           env=dict(os.environ, PYTHONHASHSEED="1"))
    except subprocess.TimeoutExpired:
        return "timeout"
    ok = p.returncode == 1 and "VIOLATION property=" in p.stdout
    same = "digest" in p.stdout and "matches" in p.stdout
    return "reproduced%s" % ("" if same else " (event-log digest differs)") if ok else "NOT reproduced (rc=%d)" % p.returncode


def fresh_digests(prop, items, hashseed, root=None):
    """Run `run.py digest` in a fresh interpreter under another PYTHONHASHSEED."""
    import tempfile
    envv = dict(os.environ, PYTHONHASHSEED=str(hashseed))
    if root:
        envv["VERIF_SCRATCH_ROOT"] = root
    fd, path = tempfile.mkstemp(prefix="verif-digest-", suffix=".json", dir=env.scratch_parent())
    try:
        with os.fdopen(fd, "w") as f:
            json.dump(items, f)
        p = subprocess.run([sys.executable, os.path.join(env.VERIF, "sim", "run.py"), "digest", prop, path],
                           capture_output=True, text=True, timeout=1200, env=envv)
        for l in p.stdout.split("\n"):
            if l.startswith("DIGESTS "):
                return json.loads(l[8:]), None
        return None, "digest helper failed rc=%d: %s" % (p.returncode, (p.stderr or p.stdout)[-400:])
    finally:
        try:
            os.unlink(path)
        except OSError:
            pass
