#!/venv/bin/python
"""Prints the markdown tables of DESIGN.md §9 from mutants/RESULTS.json and seeded/*/meta.json."""
import glob
import json
import os

here = os.path.dirname(os.path.abspath(__file__))
res = json.load(open(os.path.join(here, "mutants", "RESULTS.json")))
print("| mutant (`/verif/mutants/<name>.patch`) | quick check of its property | violation classes reported |")
print("|---|---|---|")
for k in sorted(res):
    v = res[k]
    print("| %s | %s (%.0f s) | %s |" % (k, v["status"], v.get("wall_s", 0), ", ".join(sorted({c.split(" site=")[0] for c in v.get("classes", [])}))))
print()
print("| seeded change (`/verif/seeded/<id>/`) | property | what it is | what it needs to manifest | caught by |")
print("|---|---|---|---|---|")
for p in sorted(glob.glob(os.path.join(here, "seeded", "*", "meta.json"))):
    m = json.load(open(p))
    print("| %s | %s | %s | %s | %s |" % (os.path.basename(os.path.dirname(p)), m["property"], m["what"], m["needs"], m["caught_by"]))
