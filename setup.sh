#!/bin/sh
# Offline setup: nothing is compiled.  Verify the interpreter and the repo's own dependencies;
# install hypothesis from the local wheelhouse only if it is missing (used by an optional driver).
set -e
/venv/bin/python -c "import networkx, ruamel.yaml, pyparsing, sys; assert sys.version_info >= (3, 12), 'sys.monitoring needs Python 3.12'"
/venv/bin/python -c "import hypothesis" 2>/dev/null || \
  /venv/bin/pip install --no-index --find-links /opt/veriftools/wheels hypothesis >/dev/null 2>&1 || \
  echo "note: hypothesis not installable; the optional hypothesis driver is skipped"
mkdir -p /verif/evidence
echo "setup ok"
