#!/bin/sh
# Soak: quick tier of every check under several VERIF_SEEDs; evidence/replays go to a scratch dir so
# the committed evidence is untouched.  Usage: tools_soak.sh <first seed> <last seed>
# Prints one line per (seed, property); any rc != 0 deserves a look.
cd "$(dirname "$0")"
OUT=$(mktemp -d /dev/shm/osaca-verif-soak-XXXXXX)
for seed in $(seq "$1" "$2"); do
  for p in C16 C17 C18 C19; do
    t0=$(date +%s)
    VERIF_SEED=$seed VERIF_OUT_DIR=$OUT timeout 3000 /venv/bin/python sim/run.py check $p --tier quick > $OUT/$p.$seed.log 2>&1
    rc=$?
    echo "seed=$seed $p rc=$rc $(( $(date +%s) - t0 ))s $(grep -E '^runs=' $OUT/$p.$seed.log | cut -c1-120)"
    if [ $rc -ne 0 ]; then grep -E "^violation|^VIOLATION|HARNESS" $OUT/$p.$seed.log | cut -c1-300; cp $OUT/$p.$seed.log /tmp/soak_fail_$p.$seed.log; fi
  done
done
rm -rf "$OUT"
