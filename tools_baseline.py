#!/venv/bin/python
"""Compare a junit xml of the repo's test suite with /root/.vp/BASELINE.json (stable_pass set)."""
import json, sys
import xml.etree.ElementTree as ET
base = json.load(open("/root/.vp/BASELINE.json"))
t = ET.parse(sys.argv[1])
st = {}
for tc in t.iter("testcase"):
    name = "%s::%s" % (tc.get("classname"), tc.get("name"))
    bad = any(c.tag in ("failure", "error") for c in tc)
    skipped = any(c.tag == "skipped" for c in tc)
    st[name] = "fail" if bad else ("skip" if skipped else "pass")
missing = [n for n in base["stable_pass"] if st.get(n) != "pass"]
print("stable_pass: %d/%d passing" % (len(base["stable_pass"]) - len(missing), len(base["stable_pass"])))
for n in missing:
    print("  NOT PASSING:", n, st.get(n))
newpass = [n for n, s in st.items() if s == "pass" and n not in base["stable_pass"]]
print("additionally passing:", newpass)
sys.exit(1 if missing else 0)
