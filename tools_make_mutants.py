#!/venv/bin/python
"""Regenerates /verif/mutants/*.patch from textual edits applied to a scratch git worktree of /repo
(HEAD).  Each mutant is a realistic change that keeps the repo's 42 baseline tests green and breaks
one property.  Usage: tools_make_mutants.py <scratch worktree>"""
import os
import subprocess
import sys

KD = "osaca/semantics/kernel_dg.py"
HW = "osaca/semantics/hw_model.py"
AS = "osaca/semantics/arch_semantics.py"
IF = "osaca/parser/instruction_form.py"
OS = "osaca/osaca.py"
BP = "osaca/parser/base_parser.py"
FE = "osaca/frontend.py"
IS = "osaca/semantics/isa_semantics.py"

M = [
    # ---------------------------------------------------------------- C16
    ("C16-1-tail-roots-dropped", [(KD, "workload = int((klen - 1) / num_cores) + 1", "workload = int(klen / num_cores)")]),
    ("C16-2-result-sort-removed", [(KD, "        loopcarried_deps.sort(reverse=True)\n", "")]),
    ("C16-3-plain-list-instead-of-manager-list", [(KD, "all_paths = manager.list()", "all_paths = []")]),
    ("C16-4-worker-returns-on-empty-root", [(KD, "            tmp_list = list(generator_path)\n",
                                             "            tmp_list = list(generator_path)\n            if not tmp_list:\n                return\n")]),
    ("C16-5-slice-start-off-by-one", [(KD, "starts = [tid * workload for tid in range(num_cores)]",
                                       "starts = [tid * workload + (1 if tid else 0) for tid in range(num_cores)]")]),
    ("C16-6-dedup-before-normalising-order", [(KD, "            lat_path.sort()\n\n            # Ignore duplicate paths which differ only in the root node\n            if tuple(lat_path) in paths_set:\n                continue\n            paths_set.add(tuple(lat_path))\n",
                                               "            # Ignore duplicate paths which differ only in the root node\n            if frozenset(lat_path) in paths_set:\n                continue\n            paths_set.add(frozenset(lat_path))\n            if klen < self.INSTRUCTION_THRESHOLD:\n                lat_path.sort()\n")]),
    ("C16-7-result-dict-rebuilt-in-set-order-on-parallel-path", [(KD, "        return loopcarried_deps_dict\n",
                                                                  "        if klen >= self.INSTRUCTION_THRESHOLD:\n            # drop entries that are subsumed by identical keys (parallel search may deliver twice)\n            loopcarried_deps_dict = {k: loopcarried_deps_dict[k] for k in set(loopcarried_deps_dict)}\n        return loopcarried_deps_dict\n")]),
    # ---------------------------------------------------------------- C19
    ("C19-1-flag-never-set", [(KD, "                                self.timed_out = True\n", "")]),
    ("C19-2-no-kill-after-deadline", [(KD, "                                os.kill(p.pid, signal.SIGKILL)\n                            p.join()\n",
                                       "                                pass\n")]),
    ("C19-3-join-before-kill", [(KD, "                                os.kill(p.pid, signal.SIGKILL)\n                            p.join()\n",
                                 "                                p.join(1.5)\n                                os.kill(p.pid, signal.SIGKILL)\n                            p.join()\n")]),
    ("C19-4-doubled-deadline", [(KD, "while time.time() - start_time <= timeout:", "while time.time() - start_time <= 2 * timeout + 1:")]),
    ("C19-5-kill-loop-skips-last-worker", [(KD, "                        for p in processes:\n                            if p.is_alive():\n                                # search is only",
                                            "                        for p in processes[:-1]:\n                            if p.is_alive():\n                                # search is only")]),
    ("C19-6-flag-set-always-after-deadline", [(KD, "                    else:\n                        # terminate running processes\n",
                                               "                    else:\n                        self.timed_out = True\n                        # terminate running processes\n")]),
    ("C19-7-partial-results-read-after-manager-exit", [(KD, "                            p.join()\n                all_paths = list(all_paths)\n",
                                                        "                            p.join()\n                if not self.timed_out:\n                    all_paths = list(all_paths)\n            if self.timed_out:\n                all_paths = list(all_paths)\n")]),
    ("C19-8-cli-drops-warning-from-text-report", [(OS, "            lcd_warning=kernel_graph.timed_out,\n            verbose=verbose,\n", "            verbose=verbose,\n")]),
    # ---------------------------------------------------------------- C17
    ("C17-1-in-place-write-and-strict-read-restored", [
        (HW, "        tmpfile = cachefile.with_name(\"{}.{}.tmp\".format(cachefile.name, os.getpid()))\n", "        tmpfile = cachefile\n"),
        (HW, "            os.replace(str(tmpfile), str(cachefile))\n        finally:\n            if tmpfile.exists():\n                tmpfile.unlink()\n",
         "        finally:\n            pass\n"),
        (HW, "        try:\n            with cachefile.open(\"rb\") as f:\n                data = pickle.load(f)\n        except Exception:\n            return None\n",
         "        with cachefile.open(\"rb\") as f:\n            data = pickle.load(f)\n")]),
    ("C17-2-tolerant-read-removed", [(HW, "        try:\n            with cachefile.open(\"rb\") as f:\n                data = pickle.load(f)\n        except Exception:\n            return None\n",
                                      "        with cachefile.open(\"rb\") as f:\n            data = pickle.load(f)\n")]),
    ("C17-3-shared-temp-name", [(HW, "cachefile.with_name(\"{}.{}.tmp\".format(cachefile.name, os.getpid()))", "cachefile.with_name(\"{}.tmp\".format(cachefile.name))")]),
    ("C17-4-cache-key-without-content-hash", [(HW, "        companion_cachefile = p.with_name(\".\" + p.stem + \"_\" + hexhash).with_suffix(\".pickle\")\n        if companion_cachefile.exists():",
                                               "        companion_cachefile = p.with_name(\".\" + p.stem + \"_\" + hexhash[:0]).with_suffix(\".pickle\")\n        if companion_cachefile.exists():"),
                                              (HW, "        companion_cachefile = p.with_name(\".\" + p.stem + \"_\" + hexhash).with_suffix(\".pickle\")\n        if os.access(",
                                               "        companion_cachefile = p.with_name(\".\" + p.stem + \"_\" + hexhash[:0]).with_suffix(\".pickle\")\n        if os.access(")]),
    ("C17-5-version-check-removed", [(HW, "            if data is not None and data.get(\"internal_version\") == self.INTERNAL_VERSION:\n                return data\n\n        # 2. home",
                                      "            if data is not None:\n                return data\n\n        # 2. home")]),
    ("C17-6-runtime-cache-live-and-path-keyed", [(HW, "                self._data = MachineModel._runtime_cache[self._path]\n",
                                                  "                self._data = MachineModel._runtime_cache[self._path]\n                return\n")]),
    ("C17-7-home-cache-keyed-by-stem-only", [(HW, "        home_cachefile = (Path(utils.CACHE_DIR) / (p.stem + \"_\" + hexhash)).with_suffix(\".pickle\")",
                                              "        home_cachefile = (Path(utils.CACHE_DIR) / (p.stem + \"_\" + hexhash[:0])).with_suffix(\".pickle\")"),
                                             (HW, "        home_cachefile = (cache_dir / (p.stem + \"_\" + hexhash)).with_suffix(\".pickle\")",
                                              "        home_cachefile = (cache_dir / (p.stem + \"_\" + hexhash[:0])).with_suffix(\".pickle\")")]),
    ("C17-8-hash-over-file-prefix-only", [(HW, "                hexhash = hashlib.sha256(content).hexdigest()\n",
                                           "                hexhash = hashlib.sha256(content[:4096]).hexdigest()\n")]),
    ("C17-9-stale-tmp-cleanup-by-name", [(HW, "        tmpfile = cachefile.with_name(\"{}.{}.tmp\".format(cachefile.name, os.getpid()))\n        try:\n",
                                          "        tmpfile = cachefile.with_name(\"{}.{}.tmp\".format(cachefile.name, os.getpid()))\n        for old in cachefile.parent.glob(cachefile.name + \".*.tmp\"):\n            if old != tmpfile:\n                try:\n                    old.unlink()\n                except OSError:\n                    pass\n        try:\n")]),
    ("C17-10-cache-write-rehashes-the-file", [(HW, "                    self._write_in_cache(self._path, hexhash)\n",
                                               "                    self._write_in_cache(self._path)\n")]),
    ("C17-11-lookup-rehashes-the-file", [(HW, "                cached = self._get_cached(self._path, hexhash)\n",
                                          "                cached = self._get_cached(self._path)\n"),
                                         (HW, "                    self._write_in_cache(self._path, hexhash)\n",
                                          "                    self._write_in_cache(self._path, hashlib.sha256(Path(self._path).read_bytes()).hexdigest())\n")]),
    # ---------------------------------------------------------------- C18
    ("C18-1-runtime-cache-live", [(HW, "                self._data = MachineModel._runtime_cache[self._path]\n",
                                   "                self._data = MachineModel._runtime_cache[self._path]\n                return\n")]),
    ("C18-2-parsed-lines-memoised-in-parser", [(BP, "            asm_instructions.append(self.parse_line(line, i + 1 + start_line))\n",
                                                "            memo = self.__dict__.setdefault(\"_parsed_lines\", {})\n            key = (line, i + 1 + start_line)\n            if key not in memo:\n                memo[key] = self.parse_line(line, i + 1 + start_line)\n            asm_instructions.append(memo[key])\n")]),
    ("C18-3-get-instruction-memoised-across-models", [(HW, "        if name is None:\n            return None\n        name_matched_iforms =",
                                                       "        if name is None:\n            return None\n        memo_key = (name.upper(), str(operands))\n        if memo_key in MachineModel._runtime_cache:\n            return MachineModel._runtime_cache[memo_key]\n        name_matched_iforms ="),
                                                      (HW, "        try:\n            return next(\n                instruction_form\n                for instruction_form in name_matched_iforms\n                if self._match_operands(\n                    instruction_form.operands,\n                    operands,\n                )\n            )\n        except StopIteration:",
                                                       "        try:\n            found = next(\n                instruction_form\n                for instruction_form in name_matched_iforms\n                if self._match_operands(\n                    instruction_form.operands,\n                    operands,\n                )\n            )\n            MachineModel._runtime_cache[memo_key] = found\n            return found\n        except StopIteration:")]),
    ("C18-4-frontend-header-model-cached-per-isa", [(FE, "            self._machine_model = MachineModel(arch=arch, lazy=True)\n",
                                                     "            isa = MachineModel.get_isa_for_arch(arch)\n            cache = Frontend.__dict__.get(\"_lazy_models\")\n            if cache is None:\n                cache = {}\n                Frontend._lazy_models = cache\n            if isa not in cache:\n                cache[isa] = MachineModel(arch=arch, lazy=True)\n            self._machine_model = cache[isa]\n")]),
]


def main():
    wt = sys.argv[1]
    out = os.path.join(os.path.dirname(os.path.abspath(__file__)), "mutants")
    os.makedirs(out, exist_ok=True)
    only = sys.argv[2:] or None
    for name, edits in M:
        if only and not any(o in name for o in only):
            continue
        subprocess.run(["git", "-C", wt, "checkout", "-q", "--", "."], check=True)
        ok = True
        for f, old, new in edits:
            p = os.path.join(wt, f)
            s = open(p).read()
            if old not in s:
                print("!! %s: pattern not found in %s: %r" % (name, f, old[:60]))
                ok = False
                break
            if old == new:
                continue
            open(p, "w").write(s.replace(old, new, 1))
        if not ok:
            continue
        d = subprocess.run(["git", "-C", wt, "diff"], capture_output=True, text=True).stdout
        if not d.strip():
            print("!! %s: empty diff" % name)
            continue
        open(os.path.join(out, name + ".patch"), "w").write(d)
        print("ok", name, len(d.split("\n")), "lines")
    subprocess.run(["git", "-C", wt, "checkout", "-q", "--", "."], check=True)


if __name__ == "__main__":
    main()
